#!/venv/bin/python
"""Single entry point:  run.py <Cxx> --tier quick|thorough   |   run.py <Cxx> --replay <file>

exit 0: property held on everything explored; exit 1: VIOLATION line(s) printed; exit 2: harness error.
"""

from __future__ import annotations

import argparse
import importlib
import os
import sys
from pathlib import Path

VERIF = Path(__file__).resolve().parent
sys.path.insert(0, str(VERIF))


def main() -> int:
    ap = argparse.ArgumentParser()
    ap.add_argument("pid")
    ap.add_argument("--tier", default=os.environ.get("VERIF_TIER", "quick"), choices=["quick", "thorough"])
    ap.add_argument("--replay", default=None)
    ap.add_argument("--seed", type=int, default=int(os.environ.get("VERIF_SEED", "0") or 0))
    args = ap.parse_args()
    os.chdir(VERIF)
    from harness import shim

    shim.setup_env()
    from harness import core

    if args.replay:
        return core.replay(args.replay)
    pid = args.pid.upper()
    modname = f"checks.{pid.lower()}"
    shim.install()
    mod = importlib.import_module(modname)
    runner = core.Runner(pid, modname, args.tier, args.seed, level=getattr(mod, "LEVEL", "model_checking"))
    try:
        mod.run(runner)
    except core_abort() as e:  # pragma: no cover
        print(f"{pid}: aborted: {e}", file=sys.stderr)
        runner.close()
        return core.EXIT_HARNESS
    return runner.finish()


def core_abort():
    from harness.interp import HarnessError

    return HarnessError


if __name__ == "__main__":
    sys.exit(main())
