"""Independent reference of one flow time step (C01), written from the documented operator
sequence in plain NumPy float64.  Axis convention: arrays are (z, y, x) / (y, x); vector component
k (0=x, 1=y, 2=z) differentiates along array axis dim-1-k.

  forcing   : w += dt / (2 dx rho) * curl(f)                       (interior)
  2-D       : conservative ENO3 advection  w -= dt/dx * div(F)      (cells two or more from the ring)
  3-D       : rotational form  w += dt / (2 dx) * curl(u x w)       (interior)
  diffusion : w += nu dt / dx^2 * (5/7-point Laplacian)             (interior)
  filter    : 1-D (1 - cos)/2 filters, multiplicative or convolution composition
  damping   : boundary zone of the given width: broadcast of the inner-edge value times a
              quarter-sine ramp, x then y (then z)
  Poisson   : stream function = free-space Green's-function summation (direct) or dense Neumann solve
  velocity  : centred curl of the stream function, zero on the ring, plus free stream
"""

from __future__ import annotations

import numpy as np

from .greens import greens_matrix


def _sl(dim, axis, s):
    out = [slice(None)] * dim
    out[axis] = s
    return tuple(out)


def d_centred(f, axis):
    """f[i+1] - f[i-1] along axis, evaluated on the interior (all axes), zero elsewhere."""
    dim = f.ndim
    out = np.zeros_like(f)
    inner = tuple(slice(1, -1) for _ in range(dim))
    hi = tuple(slice(2, None) if a == axis else slice(1, -1) for a in range(dim))
    lo = tuple(slice(None, -2) if a == axis else slice(1, -1) for a in range(dim))
    out[inner] = f[hi] - f[lo]
    return out


def laplacian(f):
    dim = f.ndim
    out = np.zeros_like(f)
    inner = tuple(slice(1, -1) for _ in range(dim))
    acc = -2.0 * dim * f[inner]
    for axis in range(dim):
        hi = tuple(slice(2, None) if a == axis else slice(1, -1) for a in range(dim))
        lo = tuple(slice(None, -2) if a == axis else slice(1, -1) for a in range(dim))
        acc = acc + f[hi] + f[lo]
    out[inner] = acc
    return out


def curl3(v):
    """(2 dx) * curl of a (3, nz, ny, nx) field on the interior. axis of component k is 2-k."""
    dx_ = lambda f: d_centred(f, 2)  # noqa: E731
    dy_ = lambda f: d_centred(f, 1)  # noqa: E731
    dz_ = lambda f: d_centred(f, 0)  # noqa: E731
    return np.stack([dy_(v[2]) - dz_(v[1]), dz_(v[0]) - dx_(v[2]), dx_(v[1]) - dy_(v[0])])


def eno3_flux_divergence(w, u, axis):
    """(F_{i+1/2} - F_{i-1/2}) along one array axis for nodal flux g = w u; defined for cells with
    two neighbours on each side along EVERY axis (the generated kernels iterate over [2, n-2) on all
    axes), zero elsewhere."""
    dim = w.ndim
    g = w * u
    n = w.shape[axis]

    def at(arr, k):  # arr[i + k] for i in [2, n-2) along axis, [2, m-2) on the others
        return arr[tuple(slice(2 + k, n - 2 + k) if a == axis else slice(2, -2) for a in range(dim))]

    # face i+1/2
    pos_f = at(u, 0) + at(u, 1) > 0
    Ff = np.where(pos_f, at(g, 1) / 3 + 5 * at(g, 0) / 6 - at(g, -1) / 6, at(g, 0) / 3 + 5 * at(g, 1) / 6 - at(g, 2) / 6)
    # face i-1/2
    pos_b = at(u, -1) + at(u, 0) > 0
    Fb = np.where(pos_b, at(g, 0) / 3 + 5 * at(g, -1) / 6 - at(g, -2) / 6, at(g, -1) / 3 + 5 * at(g, 0) / 6 - at(g, 1) / 6)
    out = np.zeros_like(w)
    out[tuple(slice(2, -2) for _ in range(dim))] = Ff - Fb
    return out


def advect(w, vel, dt_by_dx):
    dim = w.ndim
    tot = np.zeros_like(w)
    for k in range(dim):
        tot = tot + eno3_flux_divergence(w, vel[k], dim - 1 - k)
    return w - dt_by_dx * tot


def filter_1d(f, axis):
    """0.25 * (-f[+1] - f[-1] + 2 f) on the interior (all axes), zero on the ring."""
    dim = f.ndim
    out = np.zeros_like(f)
    inner = tuple(slice(1, -1) for _ in range(dim))
    hi = tuple(slice(2, None) if a == axis else slice(1, -1) for a in range(dim))
    lo = tuple(slice(None, -2) if a == axis else slice(1, -1) for a in range(dim))
    out[inner] = 0.25 * (-f[hi] - f[lo] + 2 * f[inner])
    return out


def laplacian_filter(f, ftype, order):
    if ftype == "multiplicative":
        flux = f.copy()
        for _ in range(order):
            for axis in (2, 1, 0):  # x, then y, then z
                flux = filter_1d(flux, axis)
        return f - flux
    out = f.copy()
    for axis in (2, 1, 0):
        flux = out.copy()
        for _ in range(order):
            flux = filter_1d(flux, axis)
        out = out - flux
    return out


def damp_boundary(f, width, dx, ramp=True):
    """Boundary-zone damping of one scalar component: for each axis in the order x, y(, z): fill
    the zone with the inner-edge value, then multiply by sin(pi/2 * distance_to_face_cell / (width dx))."""
    if width == 0:
        return f
    f = f.copy()
    dim = f.ndim
    for axis in range(dim - 1, -1, -1):  # x (last axis) first
        n = f.shape[axis]
        f[_sl(dim, axis, slice(0, width))] = f[_sl(dim, axis, slice(width - 1, width))]
        f[_sl(dim, axis, slice(n - width, n))] = f[_sl(dim, axis, slice(n - width, n - width + 1))]
        if not ramp:
            continue  # magnitude bookkeeping: the zone takes the inner-edge magnitude, rounding is relative to it
        dist = np.arange(width) * dx  # distance of cell i from the first cell centre
        rvals = np.sin(np.pi / 2 * dist / (width * dx))
        sh = [1] * dim
        sh[axis] = width
        f[_sl(dim, axis, slice(0, width))] *= rvals.reshape(sh)
        f[_sl(dim, axis, slice(n - width, n))] *= rvals[::-1].reshape(sh)
    return f


_G_CACHE: dict = {}


def poisson_greens(rhs, dx):
    key = (rhs.shape, float(dx))
    if key not in _G_CACHE:
        _G_CACHE[key] = greens_matrix(rhs.shape, dx)
    G = _G_CACHE[key]
    return (G @ rhs.ravel()).reshape(rhs.shape), (np.abs(G) @ np.abs(rhs.ravel())).reshape(rhs.shape)


_N_CACHE: dict = {}


def poisson_neumann(rhs, dx):
    """Zero-mean solution of the second-order Neumann negative Laplacian (dense, via pseudo-inverse)."""
    key = (rhs.shape, float(dx))
    if key not in _N_CACHE:
        mats = []
        for n in rhs.shape:
            a = np.zeros((n, n))
            for i in range(n):
                for j in (i - 1, i + 1):
                    a[i, i] += 1
                    a[i, min(max(j, 0), n - 1)] -= 1
            mats.append(a / dx**2)
        tot = np.zeros((rhs.size, rhs.size))
        for k, a in enumerate(mats):
            m = np.eye(1)
            for q, n in enumerate(rhs.shape):
                m = np.kron(m, a if q == k else np.eye(n))
            tot += m
        _N_CACHE[key] = np.linalg.pinv(tot, hermitian=True)
    P = _N_CACHE[key]
    r = rhs.ravel() - rhs.mean()
    return (P @ r).reshape(rhs.shape), (np.abs(P) @ np.abs(r)).reshape(rhs.shape)


def ns_step(kind, w, vel, forcing, dt, nu, rho, dx, width, free_stream, filt=None, poisson="greens"):
    """Returns dict(vorticity, velocity, stream, tol_scale_vorticity, tol_scale_velocity)."""
    dim = 2 if kind == "ns2d" else 3
    w = np.array(w, dtype=np.float64)
    vel = np.array(vel, dtype=np.float64)
    mag = np.abs(w).copy()  # running bound of the magnitude of the terms entering each cell
    if forcing is not None:
        f = np.array(forcing, dtype=np.float64)
        p = dt / (2 * dx * rho)
        if dim == 2:
            w = w + p * (d_centred(f[1], 1) - d_centred(f[0], 0))
            mag = mag + p * (_absdiff(f[1], 1) + _absdiff(f[0], 0))
        else:
            w = w + p * curl3(f)
            mag = mag + p * _abscurl(f)
    if dim == 2:
        w_adv = advect(w, vel, dt / dx)
        umax = np.abs(vel).sum(0).max()
        mag = mag + 4 * (dt / dx) * umax * _nbr_max(np.abs(w), 2)
        w = w_adv
    else:
        cross = np.stack([vel[1] * w[2] - w[1] * vel[2], vel[2] * w[0] - w[2] * vel[0], vel[0] * w[1] - w[0] * vel[1]])
        w = w + dt / (2 * dx) * curl3(cross)
        acr = _abscross(vel, np.abs(w))
        mag = mag + dt / (2 * dx) * _abscurl(acr)
    beta = nu * dt / dx**2
    if dim == 2:
        w = w + beta * laplacian(w)
    else:
        w = np.stack([c + beta * laplacian(c) for c in w])
    mag = mag + 4 * dim * beta * _nbr_max(mag, 1)
    if filt is not None and dim == 3:
        w = np.stack([laplacian_filter(c, filt[0], int(filt[1])) for c in w])
        mag = _nbr_max(mag, int(filt[1])) * (2.0 ** min(3, int(filt[1])))
    if dim == 2:
        w = damp_boundary(w, width, dx)
        mag = damp_boundary(mag, width, dx, ramp=False) if width else mag
    else:
        w = np.stack([damp_boundary(c, width, dx) for c in w])
        mag = np.stack([damp_boundary(c, width, dx, ramp=False) for c in mag]) if width else mag
    solve = poisson_greens if poisson == "greens" else poisson_neumann
    if dim == 2:
        psi, psi_abs = solve(w, dx)
        u = np.zeros_like(vel)
        u[0] = d_centred(psi, 0) / (2 * dx)
        u[1] = -d_centred(psi, 1) / (2 * dx)
        psi_scale = psi_abs.max()
    else:
        sols = [solve(c, dx) for c in w]
        psi = np.stack([s[0] for s in sols])
        psi_scale = max(s[1].max() for s in sols)
        u = curl3(psi) / (2 * dx)
    fs = np.zeros(dim) if free_stream is None else np.asarray(free_stream, dtype=np.float64)
    for k in range(dim):
        u[k] = u[k] + fs[k]
    return {"vorticity": w, "velocity": u, "stream": psi, "scale_w": mag, "scale_u": psi_scale / dx + np.abs(fs).max()}


def passive_step(prim, vel, dt, nu, dx):
    prim = np.array(prim, dtype=np.float64)
    vel = np.array(vel, dtype=np.float64)
    d = vel.shape[0]
    comps = [prim] if prim.ndim == d else list(prim)
    out = []
    mags = []
    umax = np.abs(vel).sum(0).max()
    beta = nu * dt / dx**2
    for c in comps:
        mag = np.abs(c) + 4 * (dt / dx) * umax * _nbr_max(np.abs(c), 2)
        c = advect(c, vel, dt / dx)
        c = c + beta * laplacian(c)
        mag = mag + 4 * d * beta * _nbr_max(mag, 1)
        out.append(c)
        mags.append(mag)
    if prim.ndim == d:
        return {"primary": out[0], "scale": mags[0]}
    return {"primary": np.stack(out), "scale": np.stack(mags)}


# ---------------------------------------------------------------- magnitude bookkeeping (tolerances)
def _absdiff(f, axis):
    dim = f.ndim
    out = np.zeros_like(f)
    inner = tuple(slice(1, -1) for _ in range(dim))
    hi = tuple(slice(2, None) if a == axis else slice(1, -1) for a in range(dim))
    lo = tuple(slice(None, -2) if a == axis else slice(1, -1) for a in range(dim))
    out[inner] = np.abs(f[hi]) + np.abs(f[lo])
    return out


def _abscurl(v):
    a = [_absdiff(v[k], ax) for k in range(3) for ax in range(3)]
    tot = sum(a)
    return np.stack([tot, tot, tot])


def _abscross(u, aw):
    au = np.abs(u)
    return np.stack([au[1] * aw[2] + aw[1] * au[2], au[2] * aw[0] + aw[2] * au[0], au[0] * aw[1] + aw[0] * au[1]])


def _nbr_max(a, r):
    """max over the (2r+1)^d neighbourhood (per leading component if a has one extra axis)."""
    from scipy.ndimage import maximum_filter

    if a.ndim == 4:
        return np.stack([maximum_filter(c, size=2 * r + 1, mode="nearest") for c in a])
    return maximum_filter(a, size=2 * r + 1, mode="nearest")
