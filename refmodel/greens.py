"""Reference: aperiodic discrete convolution with the free-space Green's function of the negative
Laplacian, written from the statement of C03 (direct O(N^2) summation, no FFT)."""

import itertools
import math

import numpy as np


def greens_matrix(shape, dx: float, self_scale: float = 1.0) -> np.ndarray:
    """Dense operator matrix M[i, j] = G(|x_i - x_j|) * dx^d on a grid of the given shape
    (C-order flattening).  2-D: -ln r / 2 pi, self term -(2 ln(dx / sqrt(pi)) - 1) / 4 pi;
    3-D: 1 / (4 pi r), self term 1 / (4 pi dx).  ``self_scale`` perturbs the self term (used only
    by the negative control)."""
    d = len(shape)
    cells = list(itertools.product(*[range(n) for n in shape]))
    n = len(cells)
    idx = np.array(cells, dtype=np.float64)
    diff = idx[:, None, :] - idx[None, :, :]
    r = np.sqrt((diff**2).sum(-1)) * dx
    with np.errstate(divide="ignore"):
        if d == 2:
            g = -np.log(r) / (2 * math.pi)
            self_term = -(2 * math.log(dx / math.sqrt(math.pi)) - 1) / (4 * math.pi)
        else:
            g = 1.0 / (4 * math.pi * r)
            self_term = 1.0 / (4 * math.pi * dx)
    g[np.arange(n), np.arange(n)] = self_term * self_scale
    return g * dx**d
