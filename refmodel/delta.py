"""Reference delta functions (from the statement of C06 and Peskin 2002, eq. 6.27) evaluated in
longdouble from exact rational distances."""

from __future__ import annotations

from fractions import Fraction

from fractions import Fraction  # noqa: F401  (re-exported for checks)

import numpy as np

LD = np.longdouble


def phi_cosine(r):
    r = np.abs(np.asarray(r, dtype=LD))
    return np.where(r < 2, LD(0.25) * (1 + np.cos(LD(np.pi) / 2 * r)), LD(0))


def phi_peskin(r):
    r = np.abs(np.asarray(r, dtype=LD))
    inner = LD(0.125) * (3 - 2 * r + np.sqrt(np.abs(1 + 4 * r - 4 * r * r)))
    outer = LD(0.125) * (5 - 2 * r - np.sqrt(np.abs(-7 + 12 * r - 4 * r * r)))
    return np.where(r < 1, inner, np.where(r < 2, outer, LD(0)))


PHI = {"cosine": phi_cosine, "peskin": phi_peskin}


def exact_scaled_distances(x: float, dx: float, n_cells: int, shift: float | None = None) -> np.ndarray:
    """(centre_i - x) / dx for i in range(n_cells), computed exactly (rationals) from the float
    inputs, then rounded once to longdouble. Cell centres are shift + i dx (default shift dx / 2)."""
    fx, fdx = Fraction(float(x)), Fraction(float(dx))
    fs = fdx / 2 if shift is None else Fraction(float(shift))
    return np.array([LD(float((fs + i * fdx - fx) / fdx)) for i in range(n_cells)], dtype=LD)


def weights_1d(kind: str, x: float, dx: float, n_cells: int, shift: float | None = None) -> np.ndarray:
    """phi((centre_i - x)/dx) / dx for every cell along one axis."""
    return PHI[kind](exact_scaled_distances(x, dx, n_cells, shift)) / LD(dx)
