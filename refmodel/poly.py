"""Exact multivariate polynomials over Fractions (reference for C05/C12): differentiate, evaluate
on object arrays of Fractions. Variables are indexed 0=x, 1=y, 2=z."""

from __future__ import annotations

import itertools
from fractions import Fraction

import numpy as np


class Poly:
    def __init__(self, terms=None) -> None:
        self.t = {k: Fraction(v) for k, v in (terms or {}).items() if v != 0}

    @staticmethod
    def monomial(exps, coeff=1):
        e = tuple(exps) + (0,) * (3 - len(exps))
        return Poly({e: Fraction(coeff)})

    def __add__(self, o):
        t = dict(self.t)
        for k, v in o.t.items():
            t[k] = t.get(k, 0) + v
        return Poly(t)

    def __sub__(self, o):
        return self + o * Fraction(-1)

    def __mul__(self, o):
        if isinstance(o, Poly):
            t = {}
            for (k1, v1), (k2, v2) in itertools.product(self.t.items(), o.t.items()):
                k = tuple(a + b for a, b in zip(k1, k2))
                t[k] = t.get(k, 0) + v1 * v2
            return Poly(t)
        return Poly({k: v * Fraction(o) for k, v in self.t.items()})

    def d(self, var: int, n: int = 1):
        p = self
        for _ in range(n):
            t = {}
            for k, v in p.t.items():
                if k[var] > 0:
                    kk = list(k)
                    kk[var] -= 1
                    t[tuple(kk)] = t.get(tuple(kk), 0) + v * k[var]
            p = Poly(t)
        return p

    def laplacian(self, dim: int):
        out = Poly()
        for v in range(dim):
            out = out + self.d(v, 2)
        return out

    def __call__(self, coords):
        """coords: sequence of object arrays (x, y[, z]) of Fractions -> object array."""
        shape = coords[0].shape
        out = np.empty(shape, dtype=object)
        out[...] = Fraction(0)
        for k, v in self.t.items():
            term = np.empty(shape, dtype=object)
            term[...] = v
            for var, e in enumerate(k):
                if e:
                    term = term * coords[var] ** e
            out = out + term
        return out

    def degree(self):
        return max((sum(k) for k in self.t), default=0)

    def __repr__(self):
        return " + ".join(f"{v}*x^{k[0]}y^{k[1]}z^{k[2]}" for k, v in sorted(self.t.items())) or "0"


def monomials(dim: int, max_total: int, max_each: int | None = None):
    out = []
    for e in itertools.product(range(max_total + 1), repeat=dim):
        if sum(e) <= max_total and (max_each is None or max(e) <= max_each):
            out.append(tuple(e) + (0,) * (3 - dim))
    out.sort(key=lambda e: (sum(e), e))
    return out


def frac_array(a: np.ndarray, max_den: int = 10000) -> np.ndarray:
    """Exact rational a float array stands for (coordinates (i + 1/2) dx with rational dx)."""
    out = np.empty(a.shape, dtype=object)
    flat = out.ravel()
    for i, v in enumerate(a.ravel()):
        flat[i] = Fraction(float(v)).limit_denominator(max_den)
    return out


def zeros(shape, val=0):
    out = np.empty(shape, dtype=object)
    out[...] = Fraction(val)
    return out
