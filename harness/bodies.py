"""Builders for immersed bodies, forcing grids and the pose / velocity alphabets (C08, C09, C10)."""

from __future__ import annotations

import itertools

import numpy as np


def cube_rotations():
    """The 24 proper rotations of the cube (identity first)."""
    out = []
    for perm in itertools.permutations(range(3)):
        for signs in itertools.product((1, -1), repeat=3):
            m = np.zeros((3, 3))
            for i, (p, s) in enumerate(zip(perm, signs)):
                m[i, p] = s
            if np.isclose(np.linalg.det(m), 1.0):
                out.append(m)
    out.sort(key=lambda m: -np.trace(m))
    return out


def rodrigues(axis, angle):
    axis = np.asarray(axis, dtype=float)
    axis = axis / np.linalg.norm(axis)
    K = np.array([[0, -axis[2], axis[1]], [axis[2], 0, -axis[0]], [-axis[1], axis[0], 0]])
    return np.eye(3) + np.sin(angle) * K + (1 - np.cos(angle)) * K @ K


GENERIC = [rodrigues([1, 2, 3], 0.7), rodrigues([-2, 1, 0.5], 2.1), rodrigues([0.3, -1, 2], 4.4)]


def rotations_3d():
    return cube_rotations() + GENERIC


def rotations_2d():
    """Planar frames: rotations about z, and frames whose third director points along -z (a rotation by
    pi about an in-plane axis composed with a rotation about z) - both are admissible for bodies moving
    in the XY plane."""
    rz = [rodrigues([0, 0, 1], a) for a in (0.0, np.pi / 2, np.pi, -np.pi / 2, 0.7, 2.1, 4.4)]
    flip = rodrigues([1, 0, 0], np.pi)
    return rz + [flip @ rodrigues([0, 0, 1], a) for a in (0.0, 0.7, 2.1)]


# ------------------------------------------------------------------------------------ rods
def radius_profile(taper, n_elems):
    """Radius profiles relative to the thickest element: False uniform, True monotone taper from the base,
    'reverse' thickest at the tip, 'spindle' thickest in the middle with the FIRST element of average
    thickness (so that per-element marker counts sum to n_elems x the first element's count, e.g. 8 + 12 + 4),
    'spindle-rev' its mirror image."""
    if taper is False:
        return np.ones(n_elems)
    if taper is True:
        return np.linspace(1.0, 0.35, n_elems)
    if taper == "reverse":
        return np.linspace(0.35, 1.0, n_elems)
    if taper in ("spindle", "spindle-rev"):
        prof = {2: [0.5, 1.0], 3: [2 / 3, 1.0, 1 / 3], 5: [0.75, 1.0, 1.0, 0.5, 0.5]}.get(n_elems)
        if prof is None:
            prof = list(0.4 + 0.6 * np.sin(np.pi * (np.arange(n_elems) + 0.5) / n_elems))
        prof = np.array(prof, dtype=float)
        return prof[::-1].copy() if taper == "spindle-rev" else prof
    raise KeyError(taper)


def make_rod(n_elems, taper, bent, rot=None, planar=False, seed=0, deform=True):
    """Straight rod; with deform=True it is bent / rotated / twisted right away, otherwise call
    ``deform_rod`` later (e.g. after a forcing grid has been constructed on the straight rod)."""
    import elastica as ea

    base_radius = 0.05 * radius_profile(taper, n_elems)
    rod = ea.CosseratRod.straight_rod(
        n_elements=n_elems, start=np.array([0.3, 0.4, 0.0 if planar else 0.5]), direction=np.array([1.0, 0.0, 0.0]), normal=np.array([0.0, 1.0, 0.0]),
        base_length=0.6, base_radius=base_radius, density=1e3, youngs_modulus=1e6, shear_modulus=1e6 / 1.5,
    )
    if deform:
        deform_rod(rod, bent, rot, planar, seed)
    return rod


def deform_rod(rod, bent, rot=None, planar=False, seed=0):
    from elastica.rod.cosserat_rod import _compute_geometry_from_state

    n_elems = rod.n_elems
    k = np.arange(n_elems + 1)
    if bent:
        rod.position_collection[1] += 0.03 * np.sin(1.3 * k + 0.2 + seed)
        if not planar:
            rod.position_collection[2] += 0.02 * np.cos(0.9 * k + seed) + 0.01 * k
    if rot is not None:
        # rotate the whole rod rigidly (positions about the first node, directors Q -> Q R^T)
        x0 = rod.position_collection[:, :1].copy()
        rod.position_collection[...] = x0 + rot @ (rod.position_collection - x0)
        for e in range(n_elems):
            rod.director_collection[:, :, e] = rod.director_collection[:, :, e] @ rot.T
    if not planar:
        # directors need not follow the centre line exactly: twist every element a little differently
        for e in range(n_elems):
            t = rodrigues(rod.director_collection[2, :, e], 0.3 * e + 0.1 * seed)
            rod.director_collection[:, :, e] = rod.director_collection[:, :, e] @ t.T
    _compute_geometry_from_state(rod.position_collection, rod.volume, rod.lengths, rod.tangents, rod.radius)
    return rod


def set_rod_velocity(rod, node, comp, elem=None, ocomp=None, planar=False):
    rod.velocity_collection[...] = 0
    rod.omega_collection[...] = 0
    if node is not None:
        rod.velocity_collection[comp, node] = 1.0
    if elem is not None:
        if planar:
            # a planar rod can only spin about z: material-frame components of the lab vector (0, 0, 1)
            rod.omega_collection[:, elem] = rod.director_collection[:, 2, elem]
        else:
            rod.omega_collection[ocomp, elem] = 1.0


def generic_rod_velocity(rod, seed=0, planar=False):
    n = rod.n_elems
    k = np.arange(n + 1)
    rod.velocity_collection[0] = 0.3 * np.sin(k + seed) + 0.1
    rod.velocity_collection[1] = -0.2 * np.cos(1.7 * k + seed)
    rod.velocity_collection[2] = 0.0 if planar else 0.15 * np.sin(0.5 * k + 1 + seed)
    e = np.arange(n)
    rod.omega_collection[...] = 0
    if planar:
        # in-plane rotation: lab angular velocity (0, 0, w_e), expressed in each element's material frame
        rod.omega_collection[...] = rod.director_collection[:, 2, :] * (0.8 * np.cos(e + seed) + 0.2)
    else:
        rod.omega_collection[2] = 0.8 * np.cos(e + seed) + 0.2
    if not planar:
        rod.omega_collection[0] = 0.5 * np.sin(2 * e + seed)
        rod.omega_collection[1] = -0.4 * np.cos(e * 0.7 + seed)


ROD_GRIDS = ["nodal2", "nodal3", "element2", "element3", "edge", "surface", "surface-cap"]


def make_rod_grid(kind, rod, density=8):
    import sopht.simulator as sps

    if kind == "nodal2":
        return sps.CosseratRodNodalForcingGrid(grid_dim=2, cosserat_rod=rod)
    if kind == "nodal3":
        return sps.CosseratRodNodalForcingGrid(grid_dim=3, cosserat_rod=rod)
    if kind == "element2":
        return sps.CosseratRodElementCentricForcingGrid(grid_dim=2, cosserat_rod=rod)
    if kind == "element3":
        return sps.CosseratRodElementCentricForcingGrid(grid_dim=3, cosserat_rod=rod)
    if kind == "edge":
        return sps.CosseratRodEdgeForcingGrid(grid_dim=2, cosserat_rod=rod)
    if kind == "surface":
        return sps.CosseratRodSurfaceForcingGrid(grid_dim=3, cosserat_rod=rod, surface_grid_density_for_largest_element=density, with_cap=False)
    if kind == "surface-cap":
        return sps.CosseratRodSurfaceForcingGrid(grid_dim=3, cosserat_rod=rod, surface_grid_density_for_largest_element=density, with_cap=True)
    raise KeyError(kind)


def rod_grid_is_planar(kind):
    return kind in ("nodal2", "element2", "edge")


# ------------------------------------------------------------------------------------ rigid bodies
RIGID = ["cylinder2d", "cylinder3d", "sphere", "plane"]


# forcing-point counts per rigid grid beyond the default (default first): odd counts put a plane marker at the
# body origin and a cylinder marker at mid length
RIGID_COUNTS = {"cylinder2d": [5, 16, 3], "cylinder3d": [2, 5, 4], "sphere": [5, 9, 4], "plane": [5, 3, 7, 8]}


def make_rigid(kind, rot, origin, n_points=None, late_pose=True):
    """Returns (body, forcing_grid). The director matrix of the body is set to ``rot`` applied to the
    construction frame (rows = d1, d2, d3).  With late_pose (default) the body and its forcing grid
    are constructed in the reference pose at a different location and only THEN moved/rotated to the
    requested pose (a body state changes after its grid was built; nothing may stay cached)."""
    import elastica as ea
    import sopht.simulator as sps

    origin = np.asarray(origin, dtype=float)
    target_rot, target_origin = rot, origin
    if late_pose:
        rot = np.eye(3)
        origin = origin + np.array([0.05, -0.03, 0.02 if kind != "cylinder2d" else 0.0])
    if kind == "cylinder2d":
        body = ea.Cylinder(start=origin - np.array([0, 0, 0.25]), direction=np.array([0.0, 0.0, 1.0]), normal=np.array([1.0, 0.0, 0.0]), base_length=0.5, base_radius=0.12, density=1e3)
        body.director_collection[:, :, 0] = body.director_collection[:, :, 0] @ rot.T
        grid = sps.CircularCylinderForcingGrid(grid_dim=2, rigid_body=body, num_forcing_points=n_points or 8)
    elif kind == "cylinder3d":
        body = ea.Cylinder(start=origin - np.array([0, 0, 0.2]), direction=np.array([0.0, 0.0, 1.0]), normal=np.array([1.0, 0.0, 0.0]), base_length=0.4, base_radius=0.1, density=1e3)
        body.director_collection[:, :, 0] = body.director_collection[:, :, 0] @ rot.T
        grid = sps.OpenEndCircularCylinderForcingGrid(grid_dim=3, rigid_body=body, num_forcing_points_along_length=n_points or 3)
    elif kind == "sphere":
        body = ea.Sphere(center=origin, base_radius=0.15, density=1e3)
        body.director_collection[:, :, 0] = body.director_collection[:, :, 0] @ rot.T
        grid = sps.SphereForcingGrid(grid_dim=3, rigid_body=body, num_forcing_points_along_equator=n_points or 6)
    elif kind == "plane":
        body = sps.RectangularPlane(origin=origin.copy(), plane_normal=np.array([0.0, 0.0, 1.0]), plane_tangent_along_length=np.array([1.0, 0.0, 0.0]), plane_length=0.4, plane_breadth=0.3)
        body.director_collection[:, :, 0] = body.director_collection[:, :, 0] @ rot.T
        grid = sps.RectangularPlaneForcingGrid(grid_dim=3, rigid_body=body, num_forcing_points_along_length=n_points or 4)
    else:
        raise KeyError(kind)
    if late_pose:
        body.director_collection[:, :, 0] = body.director_collection[:, :, 0] @ target_rot.T
        body.position_collection[:, 0] += target_origin - origin
    grid.compute_lag_grid_position_field()
    grid.compute_lag_grid_velocity_field()
    return body, grid
