"""Thin driver around the real Eulerian-Lagrangian communicators (numba closures).

numba specialises each closure on (dx, num_lag_nodes, dtype): every check that touches the
communicators uses the same few combinations so that the compile cost is paid once (setup_cmd
pre-warms them)."""

from __future__ import annotations

import numpy as np

N_BATCH = 8
# first-cell-centre coordinates in units of dx (None = the default dx / 2): node-centred grid, far-offset origin
SHIFTS = {"default": None, "zero": 0.0, "far": 3.25}


def shift_value(kind, dx):
    return None if SHIFTS[kind] is None else SHIFTS[kind] * dx
DXS = [0.125, 0.1, 0.013]
SHAPES = {2: (14, 17), 3: (12, 13, 15)}
LARGE_DXS = [1.7, 7.5]  # spacings above 1 (physical and grid-unit distances differ the other way round)


class Comm:
    def __init__(self, dim, kernel, dtype, dx, n=N_BATCH, n_components=None, shift=None):
        """shift: coordinate of the first cell centre (eul_grid_coord_shift); default dx / 2."""
        from sopht.numeric.immersed_boundary_ops import (
            EulerianLagrangianGridCommunicator2D,
            EulerianLagrangianGridCommunicator3D,
        )

        self.dim, self.kernel, self.dtype, self.dx, self.n = dim, kernel, np.dtype(dtype).type, dx, n
        self.ncomp = dim if n_components is None else n_components
        C = EulerianLagrangianGridCommunicator2D if dim == 2 else EulerianLagrangianGridCommunicator3D
        self.shift = float(self.dtype(dx / 2 if shift is None else shift))
        self.c = C(dx=dx, eul_grid_coord_shift=self.dtype(self.shift), num_lag_nodes=n, interp_kernel_width=2,
                   real_t=self.dtype, n_components=self.ncomp, interp_kernel_type=kernel)
        self.nearest = np.empty((dim, n), dtype=int)
        self.support = np.empty((dim,) + (4,) * dim + (n,), dtype=self.dtype)
        self.weights = np.empty((4,) * dim + (n,), dtype=self.dtype)

    def locate(self, positions):
        """positions: (dim, n) array of the communicator's dtype. Fills nearest index + weights."""
        assert positions.shape == (self.dim, self.n) and positions.dtype == self.dtype
        self.c.local_eulerian_grid_support_of_lagrangian_grid_kernel(self.support, self.nearest, positions)
        self.c.interpolation_weights_kernel(self.weights, self.support)
        return self.nearest, self.weights

    def interpolate(self, lag_field, eul_field):
        self.c.eulerian_to_lagrangian_grid_interpolation_kernel(lag_field, eul_field, self.weights, self.nearest)

    def spread(self, eul_field, lag_field):
        self.c.lagrangian_to_eulerian_grid_interpolation_kernel(eul_field, lag_field, self.weights, self.nearest)

    def window(self, m):
        """Index arrays (per array axis, z..x order) of the 4^d window of marker m."""
        # nearest[0] is the x index (last array axis)
        return [np.arange(self.nearest[self.dim - 1 - a, m] - 1, self.nearest[self.dim - 1 - a, m] + 3) for a in range(self.dim)]
