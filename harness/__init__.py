"""Verification harness for SophT (bounded exhaustive exploration)."""
