"""Captured pystencils kernels and the interpreter back end (DESIGN 3.2).

A ``CapturedKernel`` is the *model* of a generated kernel: the assignment collection the repository
hands to ``ps.create_kernel`` plus the config.  ``KernelCallable`` executes it

* ``vector``     : NumPy over the iteration region, dtype faithful (only when the bound arrays pass
                   the independence test, otherwise ``sequential``)
* ``sequential`` : cell by cell in C loop order (one-thread semantics of the generated code)
* ``exact``      : object arrays of ``fractions.Fraction`` with rationalised literals
* cell-level API (``read_cell`` / ``write_cell``) used by the schedule explorer.

or hands the very same assignments to the real pystencils -> g++ path (``jit`` back end).
"""

from __future__ import annotations

import hashlib
import itertools
import sys
from fractions import Fraction

import numpy as np
import sympy as sp
from sympy.logic.boolalg import BooleanFalse, BooleanTrue

from . import shim


class HarnessError(Exception):
    """A failure of the harness itself (never reported as a property violation)."""


def _is_access(x) -> bool:
    return hasattr(x, "field") and hasattr(x, "offsets")


def _opt(cfg, name):
    try:
        v = getattr(cfg, name)
    except Exception:
        return None
    return v


def rationalise(x: float) -> Fraction:
    """Recover the rational a float literal stands for (5/6, 1/3, 0.25, ...)."""
    f = Fraction(float(x))
    for den in (1, 10**3, 10**6):
        r = f.limit_denominator(den)
        if r == f or (x != 0 and abs(float(r) - float(x)) <= abs(np.spacing(float(x)))):
            return r
    return f


class CapturedKernel:
    def __init__(self, assignments, config, kwargs) -> None:
        if hasattr(assignments, "all_assignments"):
            assignments = assignments.all_assignments
        self.assignments = [(a.lhs, a.rhs) for a in assignments]
        self.raw_assignments = list(assignments)
        self.config = config
        self.kwargs = kwargs
        self.iteration_slice = _opt(config, "iteration_slice")
        dt = _opt(config, "default_dtype")
        self.dtype = None
        if dt is not None:
            w = getattr(dt, "width", None)
            self.dtype = {32: np.float32, 64: np.float64}.get(w)
        self.threads = None
        try:
            omp = config.cpu.openmp
            self.threads = (omp.enable, omp.num_threads)
        except Exception:
            pass
        # where in the repository was it created?
        f = sys._getframe(2)
        self.origin = f"{f.f_code.co_filename.split('/sopht/')[-1]}:{f.f_code.co_name}:{f.f_lineno}"
        self._analyse()
        self._jit = None
        self._jit_err = None

    # ------------------------------------------------------------------ analysis
    def _analyse(self) -> None:
        self.fields = {}
        self.reads = []  # (field_name, offsets)
        self.writes = []  # (field_name, offsets)
        temps = set()
        params = set()
        for lhs, rhs in self.assignments:
            for a in rhs.atoms():
                if _is_access(a):
                    self.fields[a.field.name] = a.field
                    self.reads.append((a.field.name, tuple(int(o) for o in a.offsets)))
            if _is_access(lhs):
                self.fields[lhs.field.name] = lhs.field
                self.writes.append((lhs.field.name, tuple(int(o) for o in lhs.offsets)))
            else:
                temps.add(lhs)
        for lhs, rhs in self.assignments:
            for s in rhs.free_symbols:
                if not _is_access(s) and s not in temps:
                    params.add(s)
        self.params = sorted(params, key=lambda s: s.name)
        self.written_fields = sorted({n for n, _ in self.writes})
        self.read_fields = sorted({n for n, _ in self.reads})
        dims = {f.spatial_dimensions for f in self.fields.values()}
        if len(dims) != 1:
            raise HarnessError(f"mixed spatial dimensions in kernel {self.origin}")
        self.ndim = dims.pop()
        for f in self.fields.values():
            if f.index_dimensions != 0:
                raise HarnessError("index dimensions not modelled")
        offs = [o for _, off in self.reads + self.writes for o in off]
        self.reach = max((abs(o) for o in offs), default=0)
        if self.iteration_slice is not None and self.reach != 0:
            raise HarnessError("iteration slice with neighbour access not modelled")
        self.off_centre_writes = [(n, off) for n, off in self.writes if any(off)]
        def canon(e):
            rep = {
                a: sp.Symbol(f"{a.field.name}@{tuple(int(o) for o in a.offsets)}@{a.field.spatial_dimensions}")
                for a in e.atoms()
                if _is_access(a)
            }
            return sp.srepr(e.xreplace(rep)) if rep else sp.srepr(e)

        ir = ";".join(f"{canon(l)}:={canon(r)}" for l, r in self.assignments)
        ir += repr(self.iteration_slice) + repr(self.dtype) + f"ndim={self.ndim}"
        self.ir_key = hashlib.sha256(ir.encode()).hexdigest()[:16]
        self.key = hashlib.sha256((ir + repr(self.threads)).encode()).hexdigest()[:16]
        # kernel-level independence (what pystencils would have to assume for OpenMP):
        # every read of a written field is a centre read
        self.loop_carried = [
            (n, off) for n, off in self.reads if n in self.written_fields and any(off)
        ]
        self.has_piecewise = any(r.has(sp.Piecewise) for _, r in self.assignments)
        self.has_trig = any(r.has(sp.sin) or r.has(sp.cos) for _, r in self.assignments)

    def describe(self) -> str:
        return f"{self.origin} key={self.key} writes={self.written_fields} reach={self.reach}"

    def compile(self):
        return KernelCallable(self)

    # ------------------------------------------------------------------ JIT
    def jit(self):
        if self._jit is None and self._jit_err is None:
            try:
                self._jit = shim.orig_create_kernel()(
                    self.raw_assignments, config=self.config, **self.kwargs
                ).compile()
            except Exception as e:  # e.g. 4-D iteration space with pystencils 2.0
                self._jit_err = f"{type(e).__name__}: {e}"
        return self._jit

    # ------------------------------------------------------------------ region
    def region(self, shape) -> tuple:
        """Tuple of slices: the cells the kernel iterates over for arrays of this shape."""
        if self.iteration_slice is not None:
            sl = self.iteration_slice
            if not isinstance(sl, tuple):
                sl = (sl,)
            sl = tuple(sl) + (slice(None),) * (self.ndim - len(sl))
            out = []
            for s, n in zip(sl, shape):
                if isinstance(s, slice):
                    out.append(slice(*s.indices(n)))
                else:
                    i = int(s) if s >= 0 else n + int(s)
                    out.append(slice(i, i + 1))
            return tuple(out)
        g = self.reach
        return tuple(slice(g, max(g, n - g)) for n in shape)


# ---------------------------------------------------------------------- expression evaluation
class _Ctx:
    """Evaluation context: how literals, functions and selections are realised."""

    def __init__(self, mode, dtype) -> None:
        self.mode = mode  # 'float' or 'exact'
        self.dtype = dtype

    def lit(self, x):
        if self.mode == "exact":
            if isinstance(x, sp.Rational):
                return Fraction(int(x.p), int(x.q))
            return rationalise(float(x))
        return self.dtype(float(x))

    def sin(self, v):
        if self.mode == "exact":
            raise HarnessError("transcendental function in exact mode")
        return np.sin(v)

    def cos(self, v):
        if self.mode == "exact":
            raise HarnessError("transcendental function in exact mode")
        return np.cos(v)


def evaluate(expr, env, ctx):
    """Recursive evaluation of a sympy expression. env maps Access / Symbol -> value."""
    if expr in env:
        return env[expr]
    if isinstance(expr, (sp.Float, sp.Rational)):  # Integer is a Rational
        return ctx.lit(expr)
    if isinstance(expr, sp.NumberSymbol):
        return ctx.lit(sp.Float(expr, 17))
    if isinstance(expr, sp.Add):
        args = expr.args
        acc = evaluate(args[0], env, ctx)
        for a in args[1:]:
            acc = acc + evaluate(a, env, ctx)
        return acc
    if isinstance(expr, sp.Mul):
        args = expr.args
        acc = evaluate(args[0], env, ctx)
        for a in args[1:]:
            acc = acc * evaluate(a, env, ctx)
        return acc
    if isinstance(expr, sp.Pow):
        base = evaluate(expr.args[0], env, ctx)
        e = expr.args[1]
        if e.is_Integer:
            n = int(e)
            if n >= 0:
                return base**n
            one = ctx.lit(sp.Integer(1))
            return one / (base ** (-n))
        if e == sp.Rational(1, 2) and ctx.mode == "float":
            return np.sqrt(base)
        raise HarnessError(f"unsupported power {expr}")
    if isinstance(expr, sp.Piecewise):
        # structural evaluation: last branch is the default
        pieces = expr.args
        val = evaluate(pieces[-1][0], env, ctx)
        if not isinstance(pieces[-1][1], BooleanTrue) and pieces[-1][1] is not True:
            raise HarnessError("Piecewise without default branch")
        for e, c in reversed(pieces[:-1]):
            cond = evaluate(c, env, ctx)
            v = evaluate(e, env, ctx)
            if isinstance(cond, np.ndarray) or isinstance(v, np.ndarray) or isinstance(val, np.ndarray):
                val = np.where(cond, v, val)
            else:
                val = v if cond else val
        return val
    if isinstance(expr, sp.core.relational.Relational):
        l = evaluate(expr.args[0], env, ctx)
        r = evaluate(expr.args[1], env, ctx)
        op = expr.rel_op
        if op == ">":
            return l > r
        if op == "<":
            return l < r
        if op == ">=":
            return l >= r
        if op == "<=":
            return l <= r
        if op == "==":
            return l == r
        if op == "!=":
            return l != r
        raise HarnessError(f"unsupported relation {op}")
    if isinstance(expr, sp.And):
        vals = [evaluate(a, env, ctx) for a in expr.args]
        acc = vals[0]
        for v in vals[1:]:
            acc = np.logical_and(acc, v)
        return acc
    if isinstance(expr, sp.Or):
        vals = [evaluate(a, env, ctx) for a in expr.args]
        acc = vals[0]
        for v in vals[1:]:
            acc = np.logical_or(acc, v)
        return acc
    if isinstance(expr, sp.Not):
        return np.logical_not(evaluate(expr.args[0], env, ctx))
    if isinstance(expr, BooleanTrue):
        return True
    if isinstance(expr, BooleanFalse):
        return False
    if isinstance(expr, sp.sin):
        return ctx.sin(evaluate(expr.args[0], env, ctx))
    if isinstance(expr, sp.cos):
        return ctx.cos(evaluate(expr.args[0], env, ctx))
    if isinstance(expr, sp.Abs):
        return abs(evaluate(expr.args[0], env, ctx))
    if isinstance(expr, sp.Max):
        vals = [evaluate(a, env, ctx) for a in expr.args]
        acc = vals[0]
        for v in vals[1:]:
            acc = np.maximum(acc, v)
        return acc
    if isinstance(expr, sp.Min):
        vals = [evaluate(a, env, ctx) for a in expr.args]
        acc = vals[0]
        for v in vals[1:]:
            acc = np.minimum(acc, v)
        return acc
    if isinstance(expr, sp.Symbol) or _is_access(expr):
        raise HarnessError(f"unbound symbol {expr}")
    raise HarnessError(f"unsupported expression node {type(expr).__name__}: {expr}")


def _byte_bounds(a: np.ndarray):
    """[lo, hi) byte range touched by an array view."""
    if a.size == 0:
        p = a.__array_interface__["data"][0]
        return p, p
    lo = hi = a.__array_interface__["data"][0]
    for n, s in zip(a.shape, a.strides):
        if s > 0:
            hi += (n - 1) * s
        else:
            lo += (n - 1) * s
    return lo, hi + a.itemsize


def same_view(a: np.ndarray, b: np.ndarray) -> bool:
    return (
        a.__array_interface__["data"][0] == b.__array_interface__["data"][0]
        and a.shape == b.shape
        and a.strides == b.strides
        and a.dtype == b.dtype
    )


class KernelCallable:
    """What ``ps.create_kernel(...).compile()`` returns in the checking process."""

    def __init__(self, ck: CapturedKernel) -> None:
        self.ck = ck
        self.calls = 0

    # pystencils' own wrapper exposes these; some code may look at them
    @property
    def ast(self):  # pragma: no cover
        raise AttributeError("ast not available under the verification interposer")

    def bind(self, kwargs):
        ck = self.ck
        fields = {}
        scalars = {}
        for name in ck.fields:
            if name not in kwargs:
                raise TypeError(f"kernel {ck.origin}: missing field argument {name!r}")
        for k, v in kwargs.items():
            if k in ck.fields:
                if not isinstance(v, np.ndarray):
                    raise TypeError(f"kernel {ck.origin}: argument {k!r} must be an ndarray")
                fields[k] = v
            else:
                scalars[k] = v
        for s in ck.params:
            if s.name not in scalars:
                raise TypeError(f"kernel {ck.origin}: missing scalar argument {s.name!r}")
        extra = set(scalars) - {s.name for s in ck.params}
        if extra:
            raise TypeError(f"kernel {ck.origin}: unexpected arguments {sorted(extra)}")
        shapes = {v.shape for v in fields.values()}
        if len(shapes) > 1:
            raise ValueError(f"kernel {ck.origin}: fields of different shapes {sorted(shapes)}")
        shape = shapes.pop()
        if len(shape) != ck.ndim:
            raise ValueError(
                f"kernel {ck.origin}: expected {ck.ndim}-dimensional arrays, got shape {shape}"
            )
        return fields, scalars, shape

    def hazards(self, fields) -> list:
        """Pairs (written field, read field) whose bound arrays overlap in a way that makes the
        result depend on iteration order (C15b)."""
        ck = self.ck
        out = []
        for n, off in ck.off_centre_writes:
            out.append((n, n, off, "off-centre write"))
        for w in ck.written_fields:
            wa = fields[w]
            wl, wh = _byte_bounds(wa)
            for r, off in ck.reads:
                ra = fields[r]
                if r == w:
                    if any(off):
                        out.append((w, r, off, "loop-carried read of written field"))
                    continue
                rl, rh = _byte_bounds(ra)
                if rh <= wl or wh <= rl:
                    continue
                if not np.shares_memory(wa, ra):
                    continue
                if same_view(wa, ra) and not any(off):
                    continue
                out.append((w, r, off, "output aliases a neighbour-read / differently indexed input"))
            for w2 in ck.written_fields:
                if w2 < w and np.shares_memory(wa, fields[w2]):
                    out.append((w, w2, None, "two outputs alias"))
        return out

    def __call__(self, **kwargs):
        ck = self.ck
        self.calls += 1
        fields, scalars, shape = self.bind(kwargs)
        for m in shim.MONITORS:
            m(self, fields, scalars)
        exact = any(v.dtype == object for v in fields.values())
        if shim.BACKEND == "jit" and not exact:
            k = ck.jit()
            if k is None:
                # iteration spaces the installed pystencils cannot build: interpreter only
                self._run_interp(fields, scalars, shape, exact)
            else:
                k(**kwargs)
        else:
            self._run_interp(fields, scalars, shape, exact)
        for m in shim.POST_MONITORS:
            m(self, fields, scalars)

    # ------------------------------------------------------------------ interpreter
    def _ctx(self, fields, exact):
        if exact:
            return _Ctx("exact", None)
        dts = {v.dtype for v in fields.values()}
        if len(dts) != 1:
            raise TypeError(f"kernel {self.ck.origin}: mixed dtypes {dts}")
        dt = dts.pop()
        if self.ck.dtype is not None and dt != np.dtype(self.ck.dtype):
            # the real wrapper rejects arrays whose dtype does not match the kernel's
            raise TypeError(
                f"kernel {self.ck.origin}: array dtype {dt} does not match kernel dtype "
                f"{np.dtype(self.ck.dtype)}"
            )
        return _Ctx("float", dt.type)

    def _scalar_env(self, scalars, ctx):
        env = {}
        for s in self.ck.params:
            v = scalars[s.name]
            if ctx.mode == "float":
                v = ctx.dtype(v)
            elif isinstance(v, (float, np.floating)):
                v = rationalise(float(v))  # runtime float scalars (1.0, -1.0, 0.75, 1/3 ...) in exact mode
            elif isinstance(v, (int, np.integer)):
                v = Fraction(int(v))
            env[s] = v
        return env

    def _run_interp(self, fields, scalars, shape, exact) -> None:
        ck = self.ck
        ctx = self._ctx(fields, exact)
        region = ck.region(shape)
        if any(s.stop <= s.start for s in region):
            return
        if self.hazards(fields):
            self._run_sequential(fields, scalars, shape, ctx, region)
            return
        env = self._scalar_env(scalars, ctx)
        views = {}

        def view(name, off):
            key = (name, off)
            if key not in views:
                sl = tuple(slice(s.start + o, s.stop + o) for s, o in zip(region, off))
                views[key] = fields[name][sl]
            return views[key]

        for lhs, rhs in ck.assignments:
            for a in rhs.atoms():
                if _is_access(a):
                    env[a] = view(a.field.name, tuple(int(o) for o in a.offsets))
            val = evaluate(rhs, env, ctx)
            if _is_access(lhs):
                tgt = view(lhs.field.name, tuple(int(o) for o in lhs.offsets))
                if isinstance(val, np.ndarray) and np.shares_memory(val, tgt):
                    val = val.copy()
                tgt[...] = val
                # later assignments must see the new values
                for k in [k for k in views if k[0] == lhs.field.name]:
                    pass  # views alias the array, nothing to refresh
            else:
                env[lhs] = val

    def cell_indices(self, shape):
        region = self.ck.region(shape)
        return list(itertools.product(*[range(s.start, s.stop) for s in region]))

    def update_cell(self, fields, scalars, idx, ctx=None, env0=None):
        """Execute all assignments for one cell (read, then write): the atomic unit of the
        one-thread semantics."""
        ck = self.ck
        if ctx is None:
            ctx = self._ctx(fields, any(v.dtype == object for v in fields.values()))
        env = dict(env0) if env0 is not None else self._scalar_env(scalars, ctx)
        for lhs, rhs in ck.assignments:
            for a in rhs.atoms():
                if _is_access(a):
                    j = tuple(i + int(o) for i, o in zip(idx, a.offsets))
                    env[a] = fields[a.field.name][j]
            val = evaluate(rhs, env, ctx)
            if _is_access(lhs):
                fields[lhs.field.name][tuple(i + int(o) for i, o in zip(idx, lhs.offsets))] = val
            else:
                env[lhs] = val

    def read_cell(self, fields, scalars, idx, ctx=None):
        """Read phase of one cell update: returns the values to be written (for rw-split)."""
        ck = self.ck
        if ctx is None:
            ctx = self._ctx(fields, any(v.dtype == object for v in fields.values()))
        env = self._scalar_env(scalars, ctx)
        out = []
        shadow = {}
        for lhs, rhs in ck.assignments:
            for a in rhs.atoms():
                if _is_access(a):
                    j = tuple(i + int(o) for i, o in zip(idx, a.offsets))
                    key = (a.field.name, j)
                    env[a] = shadow[key] if key in shadow else fields[a.field.name][j]
            val = evaluate(rhs, env, ctx)
            if _is_access(lhs):
                widx = tuple(i + int(o) for i, o in zip(idx, lhs.offsets))
                shadow[(lhs.field.name, widx)] = val
                out.append((lhs.field.name, widx, val))
            else:
                env[lhs] = val
        return out

    @staticmethod
    def write_cell(fields, pending) -> None:
        for name, idx, val in pending:
            fields[name][idx] = val

    def _run_sequential(self, fields, scalars, shape, ctx, region) -> None:
        env0 = self._scalar_env(scalars, ctx)
        for idx in itertools.product(*[range(s.start, s.stop) for s in region]):
            self.update_cell(fields, scalars, idx, ctx, env0)

    def run_order(self, order, **kwargs) -> None:
        """Sequential execution in a given cell order (schedule explorer)."""
        fields, scalars, shape = self.bind(kwargs)
        ctx = self._ctx(fields, any(v.dtype == object for v in fields.values()))
        env0 = self._scalar_env(scalars, ctx)
        for idx in order:
            self.update_cell(fields, scalars, idx, ctx, env0)
