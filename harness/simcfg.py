"""Simulator configurations and field-pattern alphabets shared by C01, C04, C14, C15, C18.

A configuration is a plain dict (JSON-able, so it can go into replay files):
  kind      'ns2d' | 'ns3d' | 'pt2d' | 'pt3ds' | 'pt3dv'
  shape     grid size (ny, nx) / (nz, ny, nx)
  dtype     'float64' | 'float32'
  forcing   bool            (ns only)
  stream    bool            (ns only)
  filter    None | [type, order]   (ns3d only)
  poisson   'greens' | 'fastdiag'  (ns3d only)
  width     boundary-zone width 0..4 (ns only)
  params    [dt, nu, rho]
  x_range   domain length along x
"""

from __future__ import annotations

import numpy as np

DEFAULT_PARAMS = [1e-2, 1e-1, 1.0]
POISSON = {"greens": "greens_function_convolution", "fastdiag": "fast_diagonalisation"}


_FILTER_DICTS: dict = {}


def dim_of(kind: str) -> int:
    return 2 if kind in ("ns2d", "pt2d") else 3


def is_ns(kind: str) -> bool:
    return kind.startswith("ns")


def normalise(cfg: dict) -> dict:
    c = dict(kind="ns2d", shape=None, dtype="float64", forcing=False, stream=False, filter=None,
             poisson="greens", width=2, params=list(DEFAULT_PARAMS), x_range=1.0, stream_kind="generic", time0=0.0, filter_default=False)
    c.update(cfg)
    if c["filter"] == "default":  # filter_vorticity=True WITHOUT a settings dictionary: documented default is multiplicative, order 2
        c["filter"], c["filter_default"] = ["multiplicative", 2], True
    d = dim_of(c["kind"])
    if c["shape"] is None:
        c["shape"] = (12, 14) if d == 2 else (10, 11, 12)
    c["shape"] = tuple(c["shape"])
    if c["filter"] is not None:
        c["filter"] = list(c["filter"])
    return c


def make_sim(cfg: dict, num_threads=False):
    import sopht.simulator as sps

    c = normalise(cfg)
    dt, nu, rho = c["params"]
    real_t = np.dtype(c["dtype"]).type
    k = c["kind"]
    if k == "ns2d":
        return sps.UnboundedNavierStokesFlowSimulator2D(
            grid_size=c["shape"], x_range=c["x_range"], kinematic_viscosity=nu, real_t=real_t, num_threads=num_threads,
            with_forcing=c["forcing"], with_free_stream_flow=c["stream"], flow_density=rho, penalty_zone_width=c["width"], time=c["time0"],
        )
    if k == "ns3d":
        kw = {}
        if c["filter"] is not None:
            kw["filter_vorticity"] = True
            if not c["filter_default"]:
                # ONE settings dictionary per (type, order) for the whole process, handed to every simulator built with
                # these settings - as a user holding one configuration object does (a constructor must not consume it)
                key = (c["filter"][0], int(c["filter"][1]))
                kw["filter_setting_dict"] = _FILTER_DICTS.setdefault(key, {"type": key[0], "order": key[1]})
        return sps.UnboundedNavierStokesFlowSimulator3D(
            grid_size=c["shape"], x_range=c["x_range"], kinematic_viscosity=nu, real_t=real_t, num_threads=num_threads,
            with_forcing=c["forcing"], with_free_stream_flow=c["stream"], flow_density=rho, penalty_zone_width=c["width"], time=c["time0"],
            poisson_solver_type=POISSON[c["poisson"]], **kw,
        )
    d = dim_of(k)
    ft = "vector" if k == "pt3dv" else "scalar"
    return sps.PassiveTransportFlowSimulator(
        kinematic_viscosity=nu, grid_dim=d, grid_size=c["shape"], x_range=c["x_range"], real_t=real_t,
        num_threads=num_threads, field_type=ft, time=c["time0"],
    )


def primary(sim):
    return sim.vorticity_field if hasattr(sim, "vorticity_field") else sim.primary_field


# ------------------------------------------------------------------------------ pattern alphabets
def _generic(shape, seed):
    n = int(np.prod(shape))
    i = np.arange(n, dtype=np.float64)
    return (np.sin(0.73 * i + 0.37 * seed) + 0.35 * np.cos(2.1 * i + seed) + 0.2 * (((i * 7 + seed) % 5) - 2)).reshape(shape)


def state_pattern(name: str, shape, margin: int, seed: int = 0) -> np.ndarray:
    """Scalar field patterns with support at least ``margin`` cells from every boundary."""
    out = np.zeros(shape)
    d = len(shape)
    inner = tuple(slice(margin, n - margin) for n in shape)
    centre = tuple(n // 2 for n in shape)
    if name == "zero":
        return out
    if name == "impulse":
        out[centre] = 1.0 + 0.25 * seed
    elif name == "impulse-edge":  # impulse at the corner of the admissible support
        out[tuple(margin for _ in shape)] = -1.5
        out[tuple(n - margin - 1 for n in shape)] = 0.75
    elif name == "bump":
        grids = np.meshgrid(*[np.arange(n) - (n - 1) / 2 + 0.3 * (k + 1) for k, n in enumerate(shape)], indexing="ij")
        r2 = sum((g / (0.18 * n)) ** 2 for g, n in zip(grids, shape))
        v = np.exp(-r2) * (1 + 0.3 * grids[-1] / shape[-1] - 0.2 * grids[0] / shape[0])
        out[inner] = v[inner]
    elif name == "checker":
        idx = np.indices(shape).sum(0)
        v = np.where(idx % 2 == 0, 1.0, -1.0) * (1 + 0.1 * _generic(shape, seed))
        out[inner] = v[inner]
    elif name == "generic":
        out[inner] = _generic(shape, seed)[inner]
    elif name == "zero":
        pass
    else:
        raise KeyError(name)
    if out[inner].size == 0:
        raise ValueError("margin leaves no support")
    return out


STATE_PATTERNS = ["generic", "impulse", "impulse-edge", "bump", "checker", "single-component"]


def velocity_pattern(name: str, dim: int, shape, seed: int = 0) -> np.ndarray:
    """Velocity patterns (not compact: the property allows arbitrary velocity)."""
    v = np.zeros((dim, *shape))
    if name == "zero":
        return v
    if name == "uniform+":
        for k in range(dim):
            v[k] = 0.6 + 0.3 * k
    elif name == "uniform-":
        for k in range(dim):
            v[k] = -0.7 - 0.2 * k
    elif name == "shear":
        for k in range(dim):
            ax = (k + 1) % dim
            coord = np.arange(shape[ax]).reshape([-1 if a == ax else 1 for a in range(dim)])
            v[k] = (coord - shape[ax] / 2 + 0.25) * (0.2 if k % 2 == 0 else -0.15) + 0.05
    elif name == "alternating":  # values in {1, -3}: no face sum is zero, every upwind pattern occurs
        for k in range(dim):
            idx = np.indices(shape)
            sel = ((idx.sum(0) + idx[k] // 2 + k) % 3) == 0
            v[k] = np.where(sel, -3.0, 1.0)
    elif name == "generic":
        for k in range(dim):
            g = _generic(shape, seed + 3 * k)
            v[k] = np.where(np.abs(g) < 0.05, 0.3, g)
    elif name == "single-component":  # only the last component is non-zero, the others exactly zero
        g = _generic(shape, seed + 2)
        v[dim - 1] = np.where(np.abs(g) < 0.05, 0.3, g)
    else:
        raise KeyError(name)
    return v


VELOCITY_PATTERNS = ["generic", "uniform+", "uniform-", "shear", "alternating", "single-component", "zero"]


def forcing_pattern(name: str, dim: int, shape, margin: int, seed: int = 0) -> np.ndarray:
    f = np.zeros((dim, *shape))
    if name == "none":
        return f
    centre = tuple(n // 2 for n in shape)
    if name == "impulse-pair":
        f[(0, *centre)] = 2.0
        c2 = tuple(min(n - margin - 1, c + 1) for c, n in zip(centre, shape))
        f[(dim - 1, *c2)] = -1.25
    elif name == "dipole":
        for k in range(dim):
            f[k] = state_pattern("bump", shape, margin, seed) * (1.0 if k % 2 == 0 else -0.6)
    elif name == "generic":
        for k in range(dim):
            f[k] = state_pattern("generic", shape, margin, seed + 11 * k)
    elif name == "single-component":  # planar / uniaxial forcing: one component identically zero ... all but one
        f[0] = state_pattern("generic", shape, margin, seed + 4)
    elif name == "planar":
        for k in range(dim - 1):
            f[k] = state_pattern("generic", shape, margin, seed + 11 * k)
    else:
        raise KeyError(name)
    return f


FORCING_PATTERNS = ["generic", "impulse-pair", "dipole", "single-component", "planar", "none"]


def load_state(sim, cfg, state="generic", velocity="generic", forcing="generic", margin=None, seed=0):
    """Write enumerated patterns into the public arrays of a simulator."""
    c = normalise(cfg)
    d = dim_of(c["kind"])
    shape = c["shape"]
    if margin is None:
        margin = step_reach(c) + max(c["width"], 0) + 1 if is_ns(c["kind"]) else 4
    real_t = np.dtype(c["dtype"]).type
    p = primary(sim)
    if p.ndim == d:
        p[...] = state_pattern("generic" if state == "single-component" else state, shape, margin, seed).astype(real_t)
    else:
        for k in range(p.shape[0]):
            if state == "single-component" and k > 0:
                p[k] = 0
            else:
                p[k] = (state_pattern("generic" if state == "single-component" else state, shape, margin, seed + 5 * k) * (1.0 - 0.4 * k)).astype(real_t)
    sim.velocity_field[...] = velocity_pattern(velocity, d, shape, seed).astype(real_t)
    if is_ns(c["kind"]) and c["forcing"]:
        sim.eul_grid_forcing_field[...] = forcing_pattern(forcing, d, shape, margin, seed).astype(real_t)
    return margin


def step_reach(cfg) -> int:
    """How far (in cells) one time step can spread the support of the transported field."""
    c = normalise(cfg)
    k = c["kind"]
    if k == "ns2d":
        return (1 if c["forcing"] else 0) + 2 + 1
    if k == "ns3d":
        r = (1 if c["forcing"] else 0) + 1 + 1
        if c["filter"] is not None:
            r += int(c["filter"][1])
        return r
    return 3


STREAM_KINDS = ["generic", "x-only", "y-only", "last-only", "negative", "zero"]


def free_stream(cfg, seed=0, kind=None):
    """Free-stream alphabet: generic (mixed signs), along a single axis (the other components exactly
    zero), all components negative, exactly zero."""
    c = normalise(cfg)
    d = dim_of(c["kind"])
    kind = kind or c.get("stream_kind") or "generic"
    g = np.array([0.8, -0.45, 0.3][:d]) * (1 + 0.1 * seed)
    if kind == "generic":
        return g
    if kind == "x-only":
        return np.array([0.7, 0.0, 0.0][:d])
    if kind == "y-only":
        return np.array([0.0, 0.6, 0.0][:d])
    if kind == "last-only":
        v = np.zeros(d)
        v[d - 1] = -0.5
        return v
    if kind == "negative":
        return -np.abs(g)
    if kind == "zero":
        return np.zeros(d)
    raise KeyError(kind)
