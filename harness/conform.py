"""Binding the interpreter (the model of a generated kernel) to the generated code (DESIGN 3.2).

For every captured kernel the installed pystencils can build, an enumerated input set is replayed
through both back ends: shapes from the minimal admissible one to minimal+2 per axis (non-cubic),
a dense deterministic pattern (positive and mixed-sign), unit impulses in every read field,
contiguous and strided bindings.  Agreement is required to a few ulp of the sum of the absolute
terms, and bit-for-bit on all cells outside the iteration region.  Results are cached on disk by a
hash of the kernel's IR (assignments, slice, dtype), so a changed kernel is always re-validated.
"""

from __future__ import annotations

import itertools
import json
import os
from pathlib import Path

import numpy as np
import sympy as sp

from . import interp, registry, shim
from .interp import HarnessError, _is_access

import hashlib as _hl

_here = Path(__file__).resolve().parent
MODEL_VERSION = _hl.sha256((_here / "conform.py").read_bytes() + (_here / "interp.py").read_bytes()).hexdigest()[:10]
CACHE = shim.VERIF / ".cache" / "conform" / MODEL_VERSION


def _abs_bound(expr, env, one):
    """Upper bound of the magnitude of the terms of expr (sum of |terms|)."""
    if expr in env:
        return np.abs(env[expr])
    if isinstance(expr, (sp.Float, sp.Rational)):
        return abs(float(expr))
    if isinstance(expr, sp.NumberSymbol):
        return abs(float(expr))
    if isinstance(expr, sp.Add):
        return sum(_abs_bound(a, env, one) for a in expr.args)
    if isinstance(expr, sp.Mul):
        acc = 1.0
        for a in expr.args:
            acc = acc * _abs_bound(a, env, one)
        return acc
    if isinstance(expr, sp.Pow):
        e = int(expr.args[1])
        if e >= 0:
            return _abs_bound(expr.args[0], env, one) ** e
        # division: use the true magnitude of the denominator
        ctx = interp._Ctx("float", np.float64)
        den = np.abs(interp.evaluate(expr.args[0], env, ctx))
        return 1.0 / (den ** (-e))
    if isinstance(expr, sp.Piecewise):
        acc = 0.0
        for e, _c in expr.args:
            acc = np.maximum(acc, _abs_bound(e, env, one))
        return acc
    if isinstance(expr, (sp.sin, sp.cos)):
        # |sin(a (1 + d)) - sin(a)| <= |a| |d|: the rounding of the argument carries over with its magnitude
        return one + _abs_bound(expr.args[0], env, one)
    raise HarnessError(f"abs bound: unsupported node {type(expr).__name__}")


def _pattern(shape, seed, positive):
    n = int(np.prod(shape))
    i = np.arange(n, dtype=np.float64)
    v = ((i * 7 + seed * 13) % 17) / 17.0 + 0.5  # in [0.5, 1.5)
    if not positive:
        sign = np.where(((i * 5 + seed * 3) % 7) < 3, -1.0, 1.0)
        v = v * sign * 1.3
    return v.reshape(shape)


def _bind(values: np.ndarray, dtype, kind: str) -> np.ndarray:
    if kind == "contig":
        return np.ascontiguousarray(values.astype(dtype))
    big = np.full(tuple(2 * s for s in values.shape), np.nan, dtype=dtype)
    view = big[tuple(slice(None, None, 2) for _ in values.shape)]
    view[...] = values.astype(dtype)
    return view


def shapes_for(ck) -> list:
    g = ck.reach
    base = 2 * g + 1
    if ck.iteration_slice is not None:
        w = 1
        for s in ck.iteration_slice if isinstance(ck.iteration_slice, tuple) else (ck.iteration_slice,):
            if isinstance(s, slice):
                for v in (s.start, s.stop):
                    if v is not None:
                        w = max(w, abs(int(v)))
        base = 2 * w + 1
    d = ck.ndim
    rots = [tuple((base + ((i + r) % 3)) for i in range(d)) for r in range(3)]
    return list(dict.fromkeys(rots))


def conform_kernel(ck) -> dict:
    """Replay the enumerated inputs through interpreter and JIT. Returns a result record."""
    rec = {"ir_key": ck.ir_key, "origin": ck.origin, "replays": 0, "status": "ok", "max_dev_over_tol": 0.0, "branches_both": None}
    if ck.loop_carried:
        rec["status"] = "skipped-loop-carried"
        return rec
    jit = ck.jit()
    if jit is None:
        rec["status"] = "unbound"
        rec["why"] = ck._jit_err[:200]
        return rec
    dtype = ck.dtype or np.float64
    eps = np.finfo(dtype).eps
    kc = ck.compile()
    n_terms = sum(r.count_ops() for _, r in ck.assignments) + 4
    division = any(any(isinstance(p, sp.Pow) and p.args[1].is_negative for p in sp.preorder_traversal(r)) for _, r in ck.assignments)
    names = sorted(ck.fields)
    read_only = [n for n in names if n not in ck.written_fields]
    scal = {s.name: 0.6 + 0.37 * i for i, s in enumerate(ck.params)}
    branch_seen = set()
    for shape in shapes_for(ck):
        region = ck.region(shape)
        inputs = []
        for positive in ((True,) if division else (True, False)):
            inputs.append(("dense+" if positive else "dense+-", {n: _pattern(shape, k, positive) for k, n in enumerate(names)}))
        centre = tuple(s // 2 for s in shape)
        for n in ck.read_fields:
            if division:
                continue
            vals = {m: np.zeros(shape) for m in names}
            vals[n][centre] = 1.0
            for m in read_only:
                if m != n:
                    vals[m] = _pattern(shape, 3, True)
            inputs.append((f"impulse:{n}", vals))
        for label, vals in inputs:
            for kind in ("contig", "strided"):
                a_i = {n: _bind(vals[n], dtype, kind) for n in names}
                a_j = {n: _bind(vals[n], dtype, kind) for n in names}
                pre = {n: a_i[n].copy() for n in names}
                shim.set_backend("interp")
                kc._run_interp(a_i, scal, shape, False)
                jit(**a_j, **{k: dtype(v) for k, v in scal.items()})
                rec["replays"] += 1
                # tolerance from the magnitude of the terms
                env = {s: dtype(scal[s.name]) for s in ck.params}
                for lhs, rhs in ck.assignments:
                    for a in rhs.atoms():
                        if _is_access(a):
                            sl = tuple(slice(s.start + int(o), s.stop + int(o)) for s, o in zip(region, a.offsets))
                            env[a] = pre[a.field.name][sl].astype(np.float64)
                    if ck.has_piecewise:
                        for pw in rhs.atoms(sp.Piecewise):
                            c = interp.evaluate(pw.args[0][1], env, interp._Ctx("float", np.float64))
                            if np.any(c):
                                branch_seen.add((str(pw.args[0][1]), True))
                            if not np.all(c):
                                branch_seen.add((str(pw.args[0][1]), False))
                    bound = _abs_bound(rhs, env, 1.0)
                    if _is_access(lhs):
                        tol = 4 * n_terms * eps * bound + np.finfo(dtype).tiny
                        if ck.has_trig:
                            tol = tol * 4
                        wreg = tuple(slice(s.start + int(o), s.stop + int(o)) for s, o in zip(region, lhs.offsets))
                        wi = a_i[lhs.field.name][wreg].astype(np.float64)
                        wj = a_j[lhs.field.name][wreg].astype(np.float64)
                        dev = np.abs(wi - wj)
                        ratio = float(np.max(dev / tol)) if dev.size else 0.0
                        rec["max_dev_over_tol"] = max(rec["max_dev_over_tol"], ratio)
                        if not (ratio <= 1.0):
                            rec["status"] = "MISMATCH"
                            rec["detail"] = f"{label}/{kind}/{shape}: field {lhs.field.name} deviates {ratio:.3g} x tol"
                            return rec
                        env[lhs] = wi
                    else:
                        env[lhs] = interp.evaluate(rhs, env, interp._Ctx("float", np.float64))
                # outside the region: bit-for-bit equal to the pre-state, both back ends
                for n in names:
                    mask = np.ones(shape, dtype=bool)
                    for wn, woff in ck.writes:
                        if wn == n:
                            mask[tuple(slice(s.start + o, s.stop + o) for s, o in zip(region, woff))] = False
                    for arrs, who in ((a_i, "interp"), (a_j, "jit")):
                        if n in ck.written_fields:
                            if arrs[n][mask].tobytes() != pre[n][mask].tobytes():
                                rec["status"] = "MISMATCH"
                                rec["detail"] = f"{label}/{kind}/{shape}: {who} wrote {n} outside the iteration region"
                                return rec
                        elif arrs[n].tobytes() != pre[n].tobytes():
                            rec["status"] = "MISMATCH"
                            rec["detail"] = f"{label}/{kind}/{shape}: {who} modified input {n}"
                            return rec
    if ck.has_piecewise:
        conds = {c for c, _ in branch_seen}
        rec["branches_both"] = all((c, True) in branch_seen and (c, False) in branch_seen for c in conds)
    return rec


def _task(args):
    name, opts, dtype, threads, keys = args
    shim.install()
    n0 = len(shim.KERNELS)
    registry.instantiate(name, opts, np.dtype(dtype).type, threads)
    out = []
    for ck in shim.KERNELS[n0:]:
        if ck.ir_key in keys:
            keys = keys - {ck.ir_key}
            out.append(conform_kernel(ck))
    return out


def ensure(runner=None, dtypes=("float64", "float32"), threads=(False,), only=None, pool=None) -> dict:
    """Make sure every kernel of the registry (optionally: only some generators) has a valid
    conformance record for its current IR. Returns a summary; raises HarnessError on a mismatch."""
    shim.install()
    CACHE.mkdir(parents=True, exist_ok=True)
    need = {}
    all_keys = {}
    captured = {}
    for name, opts in registry.entries():
        if only is not None and name not in only:
            continue
        for dt, th in itertools.product(dtypes, threads):
            n0 = len(shim.KERNELS)
            registry.instantiate(name, opts, np.dtype(dt).type, th)
            for ck in shim.KERNELS[n0:]:
                all_keys[ck.ir_key] = ck.origin
                captured[ck.ir_key] = ck
                if not (CACHE / f"{ck.ir_key}.json").exists() and ck.ir_key not in {k for v in need.values() for k in v}:
                    need.setdefault((name, json.dumps(opts, sort_keys=True), dt, th), set()).add(ck.ir_key)
    tasks = [(n, json.loads(o), dt, th, frozenset(keys)) for (n, o, dt, th), keys in need.items()]
    fresh = 0
    fresh_mismatch = []
    if tasks:
        if pool is None and runner is not None:
            pool = runner.pool()
        results = pool.imap_unordered(_task, tasks) if pool is not None else map(_task, tasks)
        for recs in results:
            for rec in recs:
                fresh += 1
                if rec["status"] == "MISMATCH":
                    fresh_mismatch.append((rec["origin"], rec.get("detail")))
                    continue  # never cache a disagreement
                (CACHE / f"{rec['ir_key']}.json").write_text(json.dumps(rec))
    # a generator whose kernels depend on how often it was called before (hidden generation history) yields other IRs
    # in the worker processes than here: validate the kernels captured in THIS process directly, so that the check
    # still reaches a verdict about them
    for k in all_keys:
        if not (CACHE / f"{k}.json").exists():
            rec = conform_kernel(captured[k])
            fresh += 1
            if rec["status"] == "MISMATCH":
                fresh_mismatch.append((rec["origin"], rec.get("detail")))
            else:
                (CACHE / f"{rec['ir_key']}.json").write_text(json.dumps(rec))
    if fresh_mismatch:
        raise HarnessError(f"interpreter and generated code disagree: {fresh_mismatch[:3]}")
    summary = {"kernels": len(all_keys), "validated_now": fresh, "replays": 0, "unbound": [], "skipped": [], "mismatch": [], "piecewise_both_branches": 0}
    for k, origin in all_keys.items():
        p = CACHE / f"{k}.json"
        if not p.exists():
            raise HarnessError(f"conformance record missing for kernel {origin}")
        rec = json.loads(p.read_text())
        summary["replays"] += rec["replays"]
        if rec["status"] == "unbound":
            summary["unbound"].append(origin)
        elif rec["status"].startswith("skipped"):
            summary["skipped"].append(origin)
        elif rec["status"] != "ok":
            summary["mismatch"].append((origin, rec.get("detail")))
        if rec.get("branches_both"):
            summary["piecewise_both_branches"] += 1
    if summary["mismatch"]:
        raise HarnessError(f"interpreter and generated code disagree: {summary['mismatch'][:3]}")
    return summary
