"""Closed-form NumPy references and documented write regions for every public kernel generator (C13).

spec(name, opts) -> dict(
    arrays  : [(argname, kind, role)]   kind: 's' scalar field, 'v' vector field, 'c' complex scalar
                                        role: 'in' | 'out' | 'inout'
    scalars : {argname: value}
    ref     : f(A, S, aux) -> {argname: (expected array, boolean mask of the region written)}
              A holds float64/complex128 copies of the arrays as they were before the call
)
Written from the docstrings / documented formulas, using refmodel.flowstep for the stencils.
"""

from __future__ import annotations

import numpy as np

from refmodel import flowstep as fsr


def interior(shape, g=1):
    m = np.zeros(shape, dtype=bool)
    m[tuple(slice(g, n - g) for n in shape)] = True
    return m


def full(shape):
    return np.ones(shape, dtype=bool)


def ring(shape, w):
    return ~interior(shape, w)


def _vec(mask, d):
    return np.stack([mask] * d)


def _zero_ring(expected, mask_int, reset, shape, width=1):
    """With ghost-zone reset the ring is written with zeros, otherwise it is left untouched."""
    if reset:
        e = np.where(mask_int, expected, 0.0)
        return e, full(shape)
    return expected, mask_int


def spec(name: str, opts: dict):
    d = 2 if name.endswith("_2d") else 3
    base = name.replace("gen_", "").replace(f"_pyst_kernel_{d}d", "").replace(f"_kernel_{d}d", "")
    ft = opts.get("field_type", "scalar")
    vec = ft == "vector"
    K = "v" if vec else "s"
    gz = opts.get("reset_ghost_zone", True)

    def V(m):  # mask for possibly-vector field
        return lambda shape: _vec(m(shape), d) if vec else m(shape)

    if base == "elementwise_sum":
        return dict(arrays=[("sum_field", K, "out"), ("field_1", K, "in"), ("field_2", K, "in")], scalars={},
                    ref=lambda A, S, aux: {"sum_field": (A["field_1"] + A["field_2"], np.ones(A["field_1"].shape, bool))})
    if base == "set_fixed_val":
        if vec:
            vals = [0.75, -1.5, 2.25][:d]
            return dict(arrays=[("vector_field", "v", "out")], scalars={"fixed_vals": vals},
                        ref=lambda A, S, aux: {"vector_field": (np.stack([np.full(A["vector_field"].shape[1:], v) for v in S["fixed_vals"]]), np.ones(A["vector_field"].shape, bool))})
        return dict(arrays=[("field", "s", "out")], scalars={"fixed_val": -1.25},
                    ref=lambda A, S, aux: {"field": (np.full(A["field"].shape, S["fixed_val"]), np.ones(A["field"].shape, bool))})
    if base == "elementwise_copy":
        return dict(arrays=[("field", "s", "out"), ("rhs_field", "s", "in")], scalars={}, ref=lambda A, S, aux: {"field": (A["rhs_field"], np.ones(A["field"].shape, bool))})
    if base == "elementwise_complex_product":
        return dict(arrays=[("product_field", "c", "out"), ("field_1", "c", "in"), ("field_2", "c", "in")], scalars={},
                    ref=lambda A, S, aux: {"product_field": (A["field_1"] * A["field_2"], np.ones(A["field_1"].shape, bool))})
    if base == "set_fixed_val_at_boundaries":
        w = opts["width"]
        if vec:
            vals = [0.5, -2.0, 1.5][:d]
            return dict(arrays=[("vector_field", "v", "inout")], scalars={"fixed_vals": vals},
                        ref=lambda A, S, aux: {"vector_field": (np.stack([np.full(A["vector_field"].shape[1:], v) for v in S["fixed_vals"]]), _vec(ring(A["vector_field"].shape[1:], w), d))})
        return dict(arrays=[("field", "s", "inout")], scalars={"fixed_val": 3.5}, ref=lambda A, S, aux: {"field": (np.full(A["field"].shape, S["fixed_val"]), ring(A["field"].shape, w))})
    if base == "add_fixed_val":
        if vec:
            vals = [0.75, -1.5, 2.25][:d]
            return dict(arrays=[("sum_field", "v", "out"), ("vector_field", "v", "in")], scalars={"fixed_vals": vals},
                        ref=lambda A, S, aux: {"sum_field": (A["vector_field"] + np.array(S["fixed_vals"], dtype=np.float64).reshape((d,) + (1,) * d), np.ones(A["vector_field"].shape, bool))})
        return dict(arrays=[("sum_field", "s", "out"), ("field", "s", "in")], scalars={"fixed_val": 0.625}, ref=lambda A, S, aux: {"sum_field": (A["field"] + S["fixed_val"], np.ones(A["field"].shape, bool))})
    if base == "elementwise_saxpby":
        return dict(arrays=[("sum_field", K, "out"), ("field_1", K, "in"), ("field_2", K, "in")], scalars={"field_1_prefac": 0.75, "field_2_prefac": -1.5},
                    ref=lambda A, S, aux: {"sum_field": (S["field_1_prefac"] * A["field_1"] + S["field_2_prefac"] * A["field_2"], np.ones(A["field_1"].shape, bool))})
    if base == "advection_flux_conservative_eno3":
        def ref(A, S, aux):
            tot = sum(fsr.eno3_flux_divergence(A["field"], A["velocity"][k], d - 1 - k) for k in range(d))
            return {"advection_flux": (A["advection_flux"] + S["inv_dx"] * tot, interior(A["field"].shape, 2))}
        return dict(arrays=[("advection_flux", "s", "inout"), ("field", "s", "in"), ("velocity", "v", "in")], scalars={"inv_dx": 1.75}, ref=ref)
    if base == "char_func_from_level_set_via_sine_heaviside":
        bw = opts["blend_width"]
        def ref(A, S, aux):
            p = A["level_set_field"]
            h = np.where(p > bw, 1.0, 0.0) + np.where(np.abs(p) > bw, 0.0, 0.5 * (1 + p / bw + np.sin(np.pi * p / bw) / np.pi))
            return {"char_func_field": (h, np.ones(p.shape, bool))}
        return dict(arrays=[("char_func_field", "s", "out"), ("level_set_field", "s", "in")], scalars={}, ref=ref, input_scale=bw)
    if base in ("update_vorticity_from_velocity_forcing", "update_vorticity_from_penalised_velocity"):
        pen = "penalised" in base
        def ref(A, S, aux):
            f = (A["penalised_velocity_field"] - A["velocity_field"]) if pen else A["velocity_forcing_field"]
            if d == 2:
                c = fsr.d_centred(f[1], 1) - fsr.d_centred(f[0], 0)
                return {"vorticity_field": (A["vorticity_field"] + S["prefactor"] * c, interior(c.shape))}
            c = fsr.curl3(f)
            return {"vorticity_field": (A["vorticity_field"] + S["prefactor"] * c, _vec(interior(c.shape[1:]), 3))}
        arrays = [("vorticity_field", "s" if d == 2 else "v", "inout")]
        arrays += [("penalised_velocity_field", "v", "in"), ("velocity_field", "v", "in")] if pen else [("velocity_forcing_field", "v", "in")]
        return dict(arrays=arrays, scalars={"prefactor": 0.625}, ref=ref)
    if base in ("brinkmann_penalise", "brinkmann_penalise_vs_fixed_val"):
        fixed = "fixed_val" in base
        lam0 = 2.5
        if vec:
            pv = [0.5, -1.25, 2.0][:d]
            def ref(A, S, aux):
                chi = A["char_field"]
                tgt = np.array(S["penalty_val"], dtype=np.float64).reshape((d,) + (1,) * d) if fixed else A["penalty_vector_field"]
                lam = S["penalty_factor"]
                return {"penalised_vector_field": ((A["vector_field"] + lam * chi * tgt) / (1 + lam * chi), np.ones(A["vector_field"].shape, bool))}
            arrays = [("penalised_vector_field", "v", "out"), ("char_field", "s+", "in"), ("vector_field", "v", "in")] + ([] if fixed else [("penalty_vector_field", "v", "in")])
            return dict(arrays=arrays, scalars={"penalty_factor": lam0, **({"penalty_val": pv} if fixed else {})}, ref=ref)
        def ref(A, S, aux):
            chi = A["char_field"]
            tgt = S["penalty_val"] if fixed else A["penalty_field"]
            lam = S["penalty_factor"]
            return {"penalised_field": ((A["field"] + lam * chi * tgt) / (1 + lam * chi), np.ones(chi.shape, bool))}
        arrays = [("penalised_field", "s", "out"), ("field", "s", "in"), ("char_field", "s+", "in")] + ([] if fixed else [("penalty_field", "s", "in")])
        return dict(arrays=arrays, scalars={"penalty_factor": lam0, **({"penalty_val": 0.75} if fixed else {})}, ref=ref)
    if base == "advection_timestep_euler_forward_conservative_eno3":
        def one(w, vel, c):
            return fsr.advect(w, vel, c)
        if vec:
            def ref(A, S, aux):
                out = np.stack([one(A["vector_field"][q], A["velocity"], S["dt_by_dx"]) for q in range(3)])
                last = out[2] - A["vector_field"][2]
                # the time-step kernels add the flux (zero outside the stencil region) to the WHOLE field
                return {"vector_field": (out, np.ones(out.shape, bool)), "advection_flux": (last, full(last.shape))}
            return dict(arrays=[("vector_field", "v", "inout"), ("advection_flux", "s", "out"), ("velocity", "v", "in")], scalars={"dt_by_dx": 0.375}, ref=ref)
        def ref(A, S, aux):
            out = one(A["field"], A["velocity"], S["dt_by_dx"])
            return {"field": (out, full(out.shape)), "advection_flux": (out - A["field"], full(out.shape))}
        return dict(arrays=[("field", "s", "inout"), ("advection_flux", "s", "out"), ("velocity", "v", "in")], scalars={"dt_by_dx": 0.375}, ref=ref)
    if base == "diffusion_flux":
        if vec:
            def ref(A, S, aux):
                lap = np.stack([fsr.laplacian(c) for c in A["vector_field"]]) * S["prefactor"]
                e, m = _zero_ring(lap, _vec(interior(lap.shape[1:]), 3), gz, lap.shape)
                return {"vector_field_diffusion_flux": (e, m)}
            return dict(arrays=[("vector_field_diffusion_flux", "v", "out"), ("vector_field", "v", "in")], scalars={"prefactor": 0.625}, ref=ref)
        def ref(A, S, aux):
            lap = fsr.laplacian(A["field"]) * S["prefactor"]
            e, m = _zero_ring(lap, interior(lap.shape), gz, lap.shape)
            return {"diffusion_flux": (e, m)}
        return dict(arrays=[("diffusion_flux", "s", "out"), ("field", "s", "in")], scalars={"prefactor": 0.625}, ref=ref)
    if base == "diffusion_timestep_euler_forward":
        if vec:
            def ref(A, S, aux):
                out = np.stack([c + S["nu_dt_by_dx2"] * fsr.laplacian(c) for c in A["vector_field"]])
                last = out[2] - A["vector_field"][2]
                return {"vector_field": (out, np.ones(out.shape, bool)), "diffusion_flux": (last, full(last.shape))}
            return dict(arrays=[("vector_field", "v", "inout"), ("diffusion_flux", "s", "out")], scalars={"nu_dt_by_dx2": 0.125}, ref=ref)
        def ref(A, S, aux):
            out = A["field"] + S["nu_dt_by_dx2"] * fsr.laplacian(A["field"])
            return {"field": (out, full(out.shape)), "diffusion_flux": (out - A["field"], full(out.shape))}
        return dict(arrays=[("field", "s", "inout"), ("diffusion_flux", "s", "out")], scalars={"nu_dt_by_dx2": 0.125}, ref=ref)
    if base == "inplane_field_curl":
        def ref(A, S, aux):
            c = (fsr.d_centred(A["field"][1], 1) - fsr.d_centred(A["field"][0], 0)) * S["prefactor"]
            return {"curl": (c, interior(c.shape))}
        return dict(arrays=[("curl", "s", "out"), ("field", "v", "in")], scalars={"prefactor": 0.625}, ref=ref)
    if base == "outplane_field_curl":
        def ref(A, S, aux):
            p = A["field"]
            c = np.stack([fsr.d_centred(p, 0), -fsr.d_centred(p, 1)]) * S["prefactor"]
            e, m = _zero_ring(c, _vec(interior(p.shape), 2), gz, c.shape)
            return {"curl": (e, m)}
        return dict(arrays=[("curl", "v", "out"), ("field", "s", "in")], scalars={"prefactor": 0.625}, ref=ref)
    if base == "curl":
        def ref(A, S, aux):
            c = fsr.curl3(A["field"]) * S["prefactor"]
            e, m = _zero_ring(c, _vec(interior(c.shape[1:]), 3), gz, c.shape)
            return {"curl": (e, m)}
        return dict(arrays=[("curl", "v", "out"), ("field", "v", "in")], scalars={"prefactor": 0.625}, ref=ref)
    if base == "divergence":
        def ref(A, S, aux):
            f = A["field"]
            dv = 0.5 * S["inv_dx"] * (fsr.d_centred(f[0], 2) + fsr.d_centred(f[1], 1) + fsr.d_centred(f[2], 0))
            e, m = _zero_ring(dv, interior(dv.shape), gz, dv.shape)
            return {"divergence": (e, m)}
        return dict(arrays=[("divergence", "s", "out"), ("field", "v", "in")], scalars={"inv_dx": 1.75}, ref=ref)
    if base == "elementwise_cross_product":
        def ref(A, S, aux):
            a, b = A["field_1"], A["field_2"]
            c = np.stack([a[1] * b[2] - b[1] * a[2], a[2] * b[0] - b[2] * a[0], a[0] * b[1] - b[0] * a[1]])
            return {"result_field": (c, np.ones(c.shape, bool))}
        return dict(arrays=[("result_field", "v", "out"), ("field_1", "v", "in"), ("field_2", "v", "in")], scalars={}, ref=ref)

    def stretch(w, u, p):
        out = np.zeros_like(w)
        for q in range(3):
            out[q] = p * (w[0] * fsr.d_centred(u[q], 2) + w[1] * fsr.d_centred(u[q], 1) + w[2] * fsr.d_centred(u[q], 0))
        return out  # zero on the ring (d_centred is zero there)

    if base == "vorticity_stretching_flux":
        def ref(A, S, aux):
            fl = stretch(A["vorticity_field"], A["velocity_field"], S["prefactor"])
            return {"vorticity_stretching_flux_field": (fl, np.ones(fl.shape, bool))}
        return dict(arrays=[("vorticity_stretching_flux_field", "v", "out"), ("vorticity_field", "v", "in"), ("velocity_field", "v", "in")], scalars={"prefactor": 0.375}, ref=ref)
    if base == "vorticity_stretching_timestep_euler_forward":
        def ref(A, S, aux):
            fl = stretch(A["vorticity_field"], A["velocity_field"], S["dt_by_2_dx"])
            return {"vorticity_field": (A["vorticity_field"] + fl, np.ones(fl.shape, bool)), "vorticity_stretching_flux_field": (fl, np.ones(fl.shape, bool))}
        return dict(arrays=[("vorticity_field", "v", "inout"), ("velocity_field", "v", "in"), ("vorticity_stretching_flux_field", "v", "out")], scalars={"dt_by_2_dx": 0.25}, ref=ref)
    if base == "vorticity_stretching_timestep_ssprk3":
        def ref(A, S, aux):
            w, u, c = A["vorticity_field"], A["velocity_field"], S["dt_by_2_dx"]
            w1 = w + stretch(w, u, c)
            w2 = 0.75 * w + 0.25 * (w1 + stretch(w1, u, c))
            fl3 = stretch(w2, u, c)
            out = w / 3 + 2 * (w2 + fl3) / 3
            return {"vorticity_field": (out, np.ones(out.shape, bool)), "vorticity_stretching_flux_field": (fl3, np.ones(out.shape, bool))}
        return dict(arrays=[("vorticity_field", "v", "inout"), ("velocity_field", "v", "in"), ("vorticity_stretching_flux_field", "v", "out")], scalars={"dt_by_2_dx": 0.25}, ref=ref,
                    closed_over=["midstep_buffer_vector_field"])
    if base == "penalise_field_boundary":
        w = opts["width"]
        def ref(A, S, aux):
            key = "vector_field" if (vec and d == 3) else "field"
            f = A[key]
            dx = aux["dx"]
            if f.ndim == d:
                out = fsr.damp_boundary(f, w, dx)
                return {key: (out, ring(f.shape, w) if w else np.zeros(f.shape, bool))}
            out = np.stack([fsr.damp_boundary(c, w, dx) for c in f])
            return {key: (out, _vec(ring(f.shape[1:], w), 3) if w else np.zeros(f.shape, bool))}
        return dict(arrays=[("vector_field" if (vec and d == 3) else "field", "v" if (vec and d == 3) else "s", "inout")], scalars={}, ref=ref, needs_shape=True)
    if base == "gen_laplacian_filter_kernel_3d" or name == "gen_laplacian_filter_kernel_3d":
        o, t = opts["filter_order"], opts["filter_type"]
        def ref(A, S, aux):
            key = "vector_field" if vec else "scalar_field"
            f = A[key]
            out = np.stack([fsr.laplacian_filter(c, t, o) for c in f]) if vec else fsr.laplacian_filter(f, t, o)
            return {key: (out, np.ones(f.shape, bool))}
        return dict(arrays=[("vector_field" if vec else "scalar_field", K, "inout")], scalars={}, ref=ref, needs_shape=True, closed_over=["filter_flux_buffer", "field_buffer"])
    raise KeyError(f"no kernel spec for {name}")


SCALAR_VARIANTS = ["dyadic:float", "generic:float", "generic:float64", "generic:float32", "generic:real_t", "large:float"]


def positional_order(name: str, opts: dict, sp: dict):
    """Documented positional parameter order of the public wrapper closures (outputs first, then inputs, then
    scalars - except the Brinkmann vector wrappers, whose documented order is listed explicitly)."""
    vec = opts.get("field_type") == "vector"
    if "brinkmann_penalise_vs_fixed_val" in name and vec:
        return ["penalised_vector_field", "penalty_factor", "char_field", "penalty_val", "vector_field"]
    if "brinkmann_penalise" in name and vec:
        return ["penalised_vector_field", "penalty_factor", "char_field", "penalty_vector_field", "vector_field"]
    return [a for a, _k, _r in sp["arrays"]] + list(sp["scalars"])


def scalar_variant(scalars: dict, variant: str, real_t):
    """Scalar-argument alphabet: the VALUE (dyadic as listed above, 'generic' = not representable in
    single precision, 'large' = generic x 1e6) and the TYPE of the object the caller passes (Python float, numpy double, numpy
    single, the kernel's own precision).  Returns (arguments to pass, their exact float64 meaning)."""
    value, typ = variant.split(":")[:2]
    conv = {"float": float, "float64": np.float64, "float32": np.float32, "real_t": real_t}[typ]
    factors = (1.1, 0.9, 1.3)

    def one(v, k=0):
        # 'large': six orders of magnitude up (a stiff penalty factor, a huge step): the documented formula must be
        # evaluated as documented, not in a rearranged form that cancels
        v = float(v) * (factors[k] if value in ("generic", "large") else 1.0) * (1e6 if value == "large" else 1.0)
        obj = conv(v)
        return obj, float(obj)

    passed, meaning = {}, {}
    for name, v in scalars.items():
        if isinstance(v, (list, tuple)):
            pairs = [one(x, k) for k, x in enumerate(v)]
            passed[name], meaning[name] = [p[0] for p in pairs], [p[1] for p in pairs]
        else:
            passed[name], meaning[name] = one(v)
    return passed, meaning
