"""Seams owned by the harness (DESIGN 3.1).

* environment / cache set-up (must run before numba, pystencils or sopht are imported)
* adapter for ``pystencils.CreateKernelConfig`` (drops the legacy keyword the installed
  pystencils 2.0 rejects -- only when it really rejects it)
* interposer on ``pystencils.create_kernel``: records the assignment collection and the config and
  returns an object whose ``.compile()`` yields a callable bound to the *interpreter* back end
  (``harness.interp``) or the real pystencils -> g++ back end.

Nothing here touches /repo; it is all done by attribute replacement inside the checking process.
"""

from __future__ import annotations

import hashlib
import os
import sys
import threading
from pathlib import Path

VERIF = Path(__file__).resolve().parent.parent
REPO = Path(os.environ.get("SOPHT_VERIF_REPO", "/repo"))
GUARD = "SOPHT_TEAM_SOPHT_VERIF"

_installed = False
_tree_hash = None


def tree_hash() -> str:
    """sha256 over the python sources of the tree under check (cache key)."""
    global _tree_hash
    if _tree_hash is None:
        h = hashlib.sha256()
        for p in sorted((REPO / "sopht").rglob("*.py")):
            h.update(str(p.relative_to(REPO)).encode())
            h.update(p.read_bytes())
        _tree_hash = h.hexdigest()[:16]
    return _tree_hash


def setup_env() -> None:
    """Pin every environment knob the checks depend on. Idempotent."""
    cache = VERIF / ".cache"
    # numba validates every cache entry against (mtime, size) of the defining source file and keys it by
    # bytecode + closure contents, so one directory can be shared between tree states
    os.environ.setdefault("NUMBA_CACHE_DIR", str(cache / "numba"))
    # pystencils object cache is keyed by generated code -> safe to share between trees
    os.environ.setdefault("XDG_CACHE_HOME", str(cache / "xdg"))
    os.environ.setdefault("PYTHONHASHSEED", "0")
    os.environ.setdefault("OMP_NUM_THREADS", "1")
    os.environ.setdefault("OMP_DYNAMIC", "false")
    os.environ.setdefault("NUMBA_NUM_THREADS", "1")
    os.environ.setdefault("MKL_NUM_THREADS", "1")
    os.environ.setdefault("OPENBLAS_NUM_THREADS", "1")
    os.environ[GUARD] = "1"
    for k in ("NUMBA_CACHE_DIR", "XDG_CACHE_HOME"):
        Path(os.environ[k]).mkdir(parents=True, exist_ok=True)
    sys.dont_write_bytecode = True
    if str(REPO) != "/repo":
        sys.path.insert(0, str(REPO))


class State(threading.local):
    pass


# global (per process) interposer state
BACKEND = "interp"  # or "jit"
KERNELS: list = []  # every CapturedKernel created in this process
MONITORS: list = []  # callables(kernel, bound_fields: dict, scalars: dict) called before each kernel call
POST_MONITORS: list = []  # callables(kernel, bound_fields, scalars) called after each kernel call
_orig = {}


def install() -> None:
    """Install the adapter and the interposer. Must be called before ``import sopht``."""
    global _installed
    if _installed:
        return
    setup_env()
    import warnings

    warnings.simplefilter("ignore")  # checks never rely on warnings; keep their output readable
    warnings.filterwarnings("ignore", category=FutureWarning, module="pystencils")
    warnings.filterwarnings("ignore", category=UserWarning, module="pystencils")
    warnings.filterwarnings("ignore", message=".*option of CreateKernelConfig.*")
    warnings.filterwarnings("ignore", message=".*deprecated `data_type`.*")
    warnings.filterwarnings("ignore", message=".*deprecated `cpu_openmp`.*")
    import pystencils as ps

    orig_cfg = ps.CreateKernelConfig
    _orig["CreateKernelConfig"] = orig_cfg
    _orig["create_kernel"] = ps.create_kernel

    try:
        orig_cfg(default_number_float="float64", data_type="float64")
        legacy_ok = True
    except TypeError:
        legacy_ok = False

    if not legacy_ok:

        def create_kernel_config(*args, **kwargs):
            kwargs.pop("default_number_float", None)
            cfg = orig_cfg(*args, **kwargs)
            # remember what the repository asked for; observable by the checks
            try:
                object.__setattr__(cfg, "_verif_kwargs", dict(kwargs))
            except Exception:  # pragma: no cover
                pass
            return cfg

        ps.CreateKernelConfig = create_kernel_config

    from . import interp

    def create_kernel(assignments, config=None, **kwargs):
        ck = interp.CapturedKernel(assignments, config, kwargs)
        KERNELS.append(ck)
        return ck

    ps.create_kernel = create_kernel
    _installed = True


def orig_create_kernel():
    return _orig["create_kernel"]


def set_backend(name: str) -> None:
    global BACKEND
    assert name in ("interp", "jit")
    BACKEND = name
