"""Registry of every public kernel generator with its option combinations.

Used by conformance (binding the interpreter to the generated code), C13 and C15.  Each entry
describes how to call the generator; the kernels it creates are captured by the interposer.
"""

from __future__ import annotations

import itertools

import numpy as np

from . import shim


def position_field(shape, dx, dtype, origins=None):
    """Cell-centre coordinate field with the simulator's convention (x along the last axis).
    ``origins``: per ARRAY axis coordinate of the first cell centre (default dx / 2 on every axis)."""
    if origins is None:
        origins = [dx / 2] * len(shape)
    axes = [(o + np.arange(n) * dx).astype(dtype) for n, o in zip(shape, origins)]
    return np.flipud(np.array(np.meshgrid(*axes, indexing="ij")))


def entries(dim: int | None = None):
    """Yield (generator_name, option_dict) for every public generator and option combination.
    Options that need arrays are given as tags resolved by ``instantiate``."""
    out = []
    ft = ["scalar", "vector"]
    gz = [True, False]
    for d in (2, 3):
        s = f"_{d}d"
        out += [(f"gen_elementwise_sum_pyst_kernel{s}", {"field_type": f}) for f in ft]
        out += [(f"gen_set_fixed_val_pyst_kernel{s}", {"field_type": f}) for f in ft]
        out += [(f"gen_elementwise_copy_pyst_kernel{s}", {})]
        out += [(f"gen_elementwise_complex_product_pyst_kernel{s}", {})]
        out += [(f"gen_set_fixed_val_at_boundaries_pyst_kernel{s}", {"field_type": f, "width": w}) for f in ft for w in (1, 2, 3)]
        out += [(f"gen_add_fixed_val_pyst_kernel{s}", {"field_type": f}) for f in ft]
        out += [(f"gen_elementwise_saxpby_pyst_kernel{s}", {"field_type": f}) for f in ft]
        out += [(f"gen_advection_flux_conservative_eno3_pyst_kernel{s}", {})]
        out += [(f"gen_char_func_from_level_set_via_sine_heaviside_pyst_kernel{s}", {"blend_width": b}) for b in (0.1, 1.0 / 3.0)]
        out += [(f"gen_update_vorticity_from_velocity_forcing_pyst_kernel{s}", {})]
        out += [(f"gen_update_vorticity_from_penalised_velocity_pyst_kernel{s}", {})]
        out += [(f"gen_brinkmann_penalise_pyst_kernel{s}", {"field_type": f}) for f in ft]
    out += [("gen_brinkmann_penalise_vs_fixed_val_pyst_kernel_2d", {"field_type": f}) for f in ft]
    out += [("gen_advection_timestep_euler_forward_conservative_eno3_pyst_kernel_2d", {})]
    out += [("gen_advection_timestep_euler_forward_conservative_eno3_pyst_kernel_3d", {"field_type": f}) for f in ft]
    out += [("gen_diffusion_flux_pyst_kernel_2d", {"reset_ghost_zone": g}) for g in gz]
    out += [("gen_diffusion_flux_pyst_kernel_3d", {"reset_ghost_zone": g, "field_type": f}) for g in gz for f in ft]
    out += [("gen_diffusion_timestep_euler_forward_pyst_kernel_2d", {})]
    out += [("gen_diffusion_timestep_euler_forward_pyst_kernel_3d", {"field_type": f}) for f in ft]
    out += [("gen_inplane_field_curl_pyst_kernel_2d", {})]
    out += [("gen_outplane_field_curl_pyst_kernel_2d", {"reset_ghost_zone": g}) for g in gz]
    out += [("gen_curl_pyst_kernel_3d", {"reset_ghost_zone": g}) for g in gz]
    out += [("gen_divergence_pyst_kernel_3d", {"reset_ghost_zone": g}) for g in gz]
    out += [("gen_elementwise_cross_product_pyst_kernel_3d", {})]
    out += [("gen_vorticity_stretching_flux_pyst_kernel_3d", {})]
    out += [("gen_vorticity_stretching_timestep_euler_forward_pyst_kernel_3d", {})]
    out += [("gen_vorticity_stretching_timestep_ssprk3_pyst_kernel_3d", {"midstep": True})]
    out += [("gen_penalise_field_boundary_pyst_kernel_2d", {"width": w, "grid": True}) for w in (0, 1, 2, 3)]
    out += [("gen_penalise_field_boundary_pyst_kernel_3d", {"width": w, "grid": True, "field_type": f}) for w in (0, 1, 2, 3) for f in ft]
    # coordinate grids whose axes start at DIFFERENT coordinates (domain not anchored at the origin)
    out += [("gen_penalise_field_boundary_pyst_kernel_2d", {"width": w, "grid": "offset"}) for w in (1, 2)]
    out += [("gen_penalise_field_boundary_pyst_kernel_3d", {"width": w, "grid": "offset", "field_type": f}) for w in (1, 2) for f in ft]
    # physical domain length far from 1 (dx = length / nx)
    out += [("gen_penalise_field_boundary_pyst_kernel_2d", {"width": w, "grid": True, "length": L}) for w in (1, 2) for L in (37.0, 0.01)]
    out += [("gen_penalise_field_boundary_pyst_kernel_3d", {"width": 2, "grid": True, "length": L, "field_type": f}) for L in (37.0, 0.01) for f in ft]
    out += [
        ("gen_laplacian_filter_kernel_3d", {"filter_order": o, "filter_type": t, "field_type": f, "buffers": True})
        for o in (1, 2, 3) for t in ("multiplicative", "convolution") for f in ft
    ]
    # the simulators pass fixed_grid_size=<grid shape tuple> to most generators: same kernels, different
    # wrapper code paths may depend on it
    fixed = []
    for name, opts in out:
        if name.startswith(("gen_advection_timestep", "gen_diffusion_timestep", "gen_advection_flux", "gen_diffusion_flux", "gen_curl", "gen_outplane", "gen_inplane",
                            "gen_update_vorticity", "gen_elementwise_cross", "gen_divergence", "gen_vorticity_stretching", "gen_elementwise_sum", "gen_add_fixed_val", "gen_laplacian_filter", "gen_penalise")):
            if opts.get("grid") == "offset" or opts.get("reset_ghost_zone") is False or "length" in opts:
                continue
            fixed.append((name, {**opts, "fixed": True}))
    out += fixed
    if dim is not None:
        out = [e for e in out if e[0].endswith(f"_{dim}d")]
    return out


def gen_dim(name: str) -> int:
    return 2 if name.endswith("_2d") else 3


def instantiate(name: str, opts: dict, dtype, num_threads=False, shape=None, dx=None):
    """Call the generator. Returns (callable, aux) where aux holds arrays the generator closed over."""
    import sopht.numeric.eulerian_grid_ops as spne

    gen = getattr(spne, name)
    kw = {k: v for k, v in opts.items() if k not in ("grid", "buffers", "midstep", "fixed", "length")}
    aux = {}
    d = gen_dim(name)
    if shape is None:
        shape = (9, 11) if d == 2 else (8, 9, 11)
    if dx is None:
        dx = opts.get("length", 1.0) / shape[-1]
    if opts.get("grid"):
        origins = None if opts["grid"] is True else [(-0.37, 1.21, 0.043)[k] for k in range(d)]
        pos = position_field(shape, dx, dtype, origins)
        kw["dx"] = dtype(dx)
        kw["x_grid_field"] = pos[0]
        kw["y_grid_field"] = pos[1]
        if d == 3:
            kw["z_grid_field"] = pos[2]
        aux["position_field"] = pos
        aux["dx"] = dx
    if opts.get("buffers"):
        aux["filter_flux_buffer"] = np.zeros(shape, dtype=dtype)
        aux["field_buffer"] = np.zeros(shape, dtype=dtype)
        kw["filter_flux_buffer"] = aux["filter_flux_buffer"]
        kw["field_buffer"] = aux["field_buffer"]
    if opts.get("midstep"):
        aux["midstep_buffer_vector_field"] = np.zeros((3, *shape), dtype=dtype)
        kw["midstep_buffer_vector_field"] = aux["midstep_buffer_vector_field"]
    aux["shape"] = shape
    if opts.get("fixed"):
        kw["fixed_grid_size"] = tuple(shape)
    fn = gen(real_t=dtype, num_threads=num_threads, **kw)
    return fn, aux


def capture_all(dtypes=(np.float64, np.float32), threads=(False,), only=None):
    """Instantiate every generator; return {ir_key: CapturedKernel} for the kernels created, and a
    map generator -> list of kernel keys."""
    shim.install()
    kernels = {}
    by_gen = {}
    for name, opts in entries():
        if only is not None and name not in only:
            continue
        for dt, th in itertools.product(dtypes, threads):
            n0 = len(shim.KERNELS)
            instantiate(name, opts, dt, th)
            for ck in shim.KERNELS[n0:]:
                kernels.setdefault(ck.key, ck)
                by_gen.setdefault(name, set()).add(ck.key)
    return kernels, by_gen
