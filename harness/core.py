"""Runner, evidence writer, replay files and known-findings handling (DESIGN 8)."""

from __future__ import annotations

import hashlib
import importlib
import json
import multiprocessing as mp
import os
import subprocess
import sys
import time
import traceback
from pathlib import Path

VERIF = Path(__file__).resolve().parent.parent
# redirected only by tools/matrix.py (parallel evaluation of seeded trees must not clobber the
# evidence of the registered checks)
EVIDENCE_DIR = Path(os.environ.get("VERIF_EVIDENCE_DIR") or (VERIF / "evidence"))
REPLAY_DIR = Path(os.environ.get("VERIF_REPLAY_DIR") or (VERIF / "replays"))
KNOWN_FILE = VERIF / "known_findings.json"

EXIT_OK, EXIT_VIOLATION, EXIT_HARNESS = 0, 1, 2


def jsonable(x):
    import numpy as np
    from fractions import Fraction

    if isinstance(x, dict):
        return {str(k): jsonable(v) for k, v in x.items()}
    if isinstance(x, (list, tuple, set, frozenset)):
        return [jsonable(v) for v in x]
    if isinstance(x, np.ndarray):
        return jsonable(x.tolist())
    if isinstance(x, (np.integer,)):
        return int(x)
    if isinstance(x, (np.floating, float)):
        x = float(x)
        return x if x == x and abs(x) != float("inf") else repr(x)
    if isinstance(x, (np.bool_,)):
        return bool(x)
    if isinstance(x, Fraction):
        return f"{x.numerator}/{x.denominator}"
    if isinstance(x, type):
        return x.__name__
    if isinstance(x, (str, int, bool)) or x is None:
        return x
    return repr(x)


class Fail(dict):
    """One property violation observed in one case.

    key  : stable identifier of the failing call site / input class (used for known findings)
    what : human readable description
    """

    def __init__(self, key: str, what: str, **detail) -> None:
        super().__init__(key=key, what=what, detail=jsonable(detail))


class CaseResult(dict):
    """What a case function returns."""

    def __init__(self, fails=None, states=1, transitions=0, traces=1, outcome=None, extra=None) -> None:
        super().__init__(
            fails=list(fails or []),
            states=states,
            transitions=transitions,
            traces=traces,
            outcome=outcome,
            extra=extra or {},
        )


def _worker_init(module_name: str) -> None:
    sys.path.insert(0, str(VERIF))
    from harness import shim

    shim.install()
    importlib.import_module(module_name)


def _worker_run(args, _retry=True):
    module_name, fn, params = args
    mod = importlib.import_module(module_name)
    t0 = time.time()
    try:
        res = mod.CASES[fn](**params)
        if not isinstance(res, dict):
            raise TypeError(f"case {fn} returned {type(res)}")
        res["wall"] = time.time() - t0
        return ("ok", fn, params, res)
    except BaseException as e:  # noqa: BLE001
        from harness.interp import HarnessError

        tb = traceback.extract_tb(e.__traceback__)
        where = None
        for fr in reversed(tb):
            if "/sopht/" in fr.filename and "/verif/" not in fr.filename:
                where = f"{fr.filename.split('/sopht/')[-1]}:{fr.name}"
                break
        if isinstance(e, HarnessError) or where is None or isinstance(e, (KeyboardInterrupt, SystemExit, MemoryError)):
            if _retry and not isinstance(e, (HarnessError, KeyboardInterrupt, SystemExit)):
                # infrastructure hiccup (e.g. two workers racing on a numba / pystencils cache file): one retry
                time.sleep(0.5)
                return _worker_run(args, _retry=False)
            return ("harness", fn, params, {"error": f"{type(e).__name__}: {e}", "tb": traceback.format_exc()})
        # an exception raised from repository code inside an explored case is an observation (DESIGN 3.5)
        res = CaseResult(
            fails=[Fail(f"exception:{where}:{type(e).__name__}", f"{type(e).__name__} raised at {where}: {e}", traceback=traceback.format_exc()[-1500:])]
        )
        res["wall"] = time.time() - t0
        return ("ok", fn, params, res)


class Runner:
    def __init__(self, pid: str, module_name: str, tier: str, seed: int, level: str = "model_checking") -> None:
        self.pid = pid
        self.module_name = module_name
        self.tier = tier
        self.seed = seed
        self.level = level
        self.t0 = time.time()
        self.states = 0
        self.transitions = 0
        self.traces = 0
        self.evaluations = 0
        self.outcomes = set()
        self.samples = []
        self.fails = []  # (fn, params, Fail)
        self.harness_errors = []
        self.sections = {}
        self.bounds = {}
        self.assumptions = []
        self.exhaustive = True
        self.caps = []
        self.extra = {}
        self._pool = None
        known = json.loads(KNOWN_FILE.read_text()) if KNOWN_FILE.exists() else {"findings": []}
        self.known = [f for f in known["findings"] if f["property"] == pid]

    # ------------------------------------------------------------------ execution
    def pool(self):
        if self._pool is None:
            n = int(os.environ.get("VERIF_JOBS", "0")) or min(16, os.cpu_count() or 1)
            ctx = mp.get_context("spawn")
            self._pool = ctx.Pool(n, initializer=_worker_init, initargs=(self.module_name,))
        return self._pool

    def run_cases(self, section: str, fn: str, param_list, parallel: bool = True, chunksize: int = 1) -> list:
        """Run every case of an enumerated list; returns the CaseResults (in order)."""
        param_list = list(param_list)
        jobs = [(self.module_name, fn, p) for p in param_list]
        sec = self.sections.setdefault(
            section, {"cases": 0, "states": 0, "transitions": 0, "fails": 0, "wall_cpu": 0.0}
        )
        if parallel and len(jobs) > 1 and os.environ.get("VERIF_SERIAL") != "1":
            it = self.pool().imap(_worker_run, jobs, chunksize=chunksize)
        else:
            _worker_init(self.module_name)
            it = map(_worker_run, jobs)
        results = []
        for kind, f, params, res in it:
            self.evaluations += 1
            sec["cases"] += 1
            if kind == "harness":
                self.harness_errors.append((f, params, res))
                results.append(None)
                continue
            if kind == "exception":
                # an exception escaping a case function is a harness problem: case functions turn
                # repository exceptions into Fail records themselves
                self.harness_errors.append((f, params, res))
                results.append(None)
                continue
            self.states += res["states"]
            self.transitions += res["transitions"]
            self.traces += res["traces"]
            sec["states"] += res["states"]
            sec["transitions"] += res["transitions"]
            sec["wall_cpu"] += res.get("wall", 0.0)
            if res["outcome"] is not None:
                self.outcomes.add(res["outcome"] if isinstance(res["outcome"], (str, int)) else json.dumps(jsonable(res["outcome"]), sort_keys=True))
            if len(self.samples) < 6 and (sec["cases"] in (1, 2) ):
                self.samples.append({"section": section, "case": f, "params": jsonable(params), "extra": jsonable(res.get("extra", {}))})
            for fl in res["fails"]:
                sec["fails"] += 1
                self.fails.append((f, params, fl))
            results.append(res)
        return results

    def bind_model(self, only=None, dtypes=("float64", "float32")) -> None:
        """Conformance replay of the interpreter against the generated code for the kernels this
        check relies on (cached per kernel IR hash)."""
        from harness import conform

        s = conform.ensure(runner=self, only=only, dtypes=dtypes)
        self.extra["model_binding"] = {
            "kernels_bound": s["kernels"] - len(s["unbound"]) - len(s["skipped"]),
            "conformance_replays": s["replays"],
            "validated_in_this_run": s["validated_now"],
            "unbound_kernels(no JIT in this image)": sorted(set(s["unbound"])),
            "skipped": sorted(set(s["skipped"])),
            "piecewise_kernels_with_both_branches_replayed": s["piecewise_both_branches"],
        }
        self.conformance_replays = s["replays"]

    def close(self) -> None:
        if self._pool is not None:
            self._pool.close()
            self._pool.join()
            self._pool = None

    # ------------------------------------------------------------------ reporting
    def _is_known(self, fl) -> dict | None:
        for k in self.known:
            if k.get("status") == "known" and fl["key"] == k["key"]:
                return k
        return None

    def finish(self) -> int:
        self.close()
        wall = time.time() - self.t0
        EVIDENCE_DIR.mkdir(exist_ok=True)
        new_fails = []
        known_hit = {}
        for f, params, fl in self.fails:
            k = self._is_known(fl)
            if k is not None:
                known_hit.setdefault(k["key"], [k, 0])[1] += 1
            else:
                new_fails.append((f, params, fl))
        # replay files: one per distinct key (first occurrence = simplest first by enumeration order)
        replay_paths = {}
        for f, params, fl in new_fails:
            if fl["key"] in replay_paths:
                continue
            d = REPLAY_DIR / self.pid
            d.mkdir(parents=True, exist_ok=True)
            body = {"property": self.pid, "module": self.module_name, "case": f, "params": jsonable(params), "fail": fl}
            h = hashlib.sha256(json.dumps(body["params"], sort_keys=True).encode() + f.encode()).hexdigest()[:12]
            p = d / f"{h}.json"
            p.write_text(json.dumps(body, indent=1, sort_keys=True))
            replay_paths[fl["key"]] = p
        cov = {
            "states": int(self.states),
            "transitions": int(self.transitions),
            "traces_validated_against_impl": int(self.traces),
            "evaluations": int(self.evaluations),
            "distinct_nontrivial": int(len(self.outcomes)) if self.outcomes else int(self.states),
            "distinct_outcomes": int(len(self.outcomes)),
            "rule": self.extra.pop("rule", "every enumerated case is executed on the real code; a state is a distinct (case, history) pair; see sections"),
            "samples": self.samples[:6] or [{"note": "no cases"}],
            "exhaustive": bool(self.exhaustive and not self.caps),
            "caps_hit": self.caps,
            "bounds": jsonable(self.bounds),
            "sections": jsonable(self.sections),
            "known_findings_reproduced": {k: v[1] for k, v in known_hit.items()},
        }
        cov.update(jsonable(self.extra))
        ev = {
            "property_id": self.pid,
            "tier": self.tier,
            "seed": int(self.seed),
            "level": self.level,
            "coverage": cov,
            "assumptions": self.assumptions,
            "wall_s": round(wall, 2),
            "violations": len(new_fails),
        }
        try:
            import jsonschema

            schema = json.loads(Path("/root/.vp/EVIDENCE.schema.json").read_text())
            jsonschema.validate(ev, schema)
        except ImportError:
            pass
        except FileNotFoundError:
            pass
        (EVIDENCE_DIR / f"{self.pid}.json").write_text(json.dumps(ev, indent=1, sort_keys=True))

        if self.harness_errors:
            for f, params, res in self.harness_errors[:5]:
                print(f"HARNESS-ERROR property={self.pid} case={f} params={json.dumps(jsonable(params))[:300]}\n{res['tb']}", file=sys.stderr)
            print(f"{self.pid}: {len(self.harness_errors)} harness error(s); no verdict", file=sys.stderr)
            return EXIT_HARNESS
        for key, (k, n) in known_hit.items():
            print(f"KNOWN-FINDING: property={self.pid} {k['what']} [key={key}, reproduced {n}x]")
        print(
            f"{self.pid} tier={self.tier} seed={self.seed}: states={self.states} transitions={self.transitions} "
            f"cases={self.evaluations} outcomes={len(self.outcomes)} violations={len(new_fails)} wall={wall:.1f}s"
        )
        if new_fails:
            shown = set()
            for f, params, fl in new_fails:
                if fl["key"] in shown:
                    continue
                shown.add(fl["key"])
                print(f"  violated: [{fl['key']}] {fl['what']}")
                print(f"VIOLATION property={self.pid} replay={replay_paths[fl['key']]}")
            return EXIT_VIOLATION
        return EXIT_OK


def replay(path: str) -> int:
    body = json.loads(Path(path).read_text())
    _worker_init(body["module"])
    kind, f, params, res = _worker_run((body["module"], body["case"], body["params"]))
    if kind != "ok":
        print(res["tb"], file=sys.stderr)
        return EXIT_HARNESS
    if res["fails"]:
        for fl in res["fails"]:
            print(f"  violated: [{fl['key']}] {fl['what']}  {json.dumps(fl['detail'])[:600]}")
        print(f"VIOLATION property={body['property']} replay={path}")
        return EXIT_VIOLATION
    print(f"replay {path}: no violation")
    return EXIT_OK


def guarded(fn):
    """Decorator for code that calls into the repository inside a case: an exception raised by
    repository code is an observation (DESIGN 3.5), returned as a string."""

    def wrapper(*a, **k):
        from harness.interp import HarnessError

        try:
            return fn(*a, **k), None
        except HarnessError:
            raise
        except Exception as e:  # noqa: BLE001
            tb = traceback.extract_tb(e.__traceback__)
            where = ""
            for fr in reversed(tb):
                if "/sopht/" in fr.filename:
                    where = f"{fr.filename.split('/sopht/')[-1]}:{fr.name}"
                    break
            return None, f"{type(e).__name__} at {where}: {e}"

    return wrapper
