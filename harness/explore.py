"""Enumeration engines (DESIGN 4): deviation-bounded product lattice, explicit-state BFS over
operation histories on real objects, schedule enumeration helpers."""

from __future__ import annotations

import collections
import hashlib
import itertools

import numpy as np


# ---------------------------------------------------------------------- 4.1 product lattice
def lattice(axes: dict, max_dev: int | None = None):
    """Enumerate tuples drawn from finite alphabets.  ``axes`` maps name -> list of members, the
    first member of each list is the default.  Yields dicts with at most ``max_dev`` non-default
    members (None = full product), ordered by number of deviations (simplest first)."""
    names = list(axes)
    if max_dev is None or max_dev >= len(names):
        # full product, still ordered by deviation count
        allc = list(itertools.product(*[range(len(axes[n])) for n in names]))
        allc.sort(key=lambda c: (sum(1 for i in c if i), c))
        for c in allc:
            yield {n: axes[n][i] for n, i in zip(names, c)}
        return
    for d in range(max_dev + 1):
        for dev_axes in itertools.combinations(range(len(names)), d):
            choices = [range(1, len(axes[names[i]])) for i in dev_axes]
            for alt in itertools.product(*choices):
                c = [0] * len(names)
                for i, a in zip(dev_axes, alt):
                    c[i] = a
                yield {n: axes[n][i] for n, i in zip(names, c)}


def lattice_size(axes: dict) -> int:
    n = 1
    for v in axes.values():
        n *= len(v)
    return n


# ---------------------------------------------------------------------- 4.3 explicit-state BFS
def array_state_key(*objs, extra=()) -> str:
    """Canonical key: bytes of every ndarray (and scalars) given. Equal keys => equal futures for
    deterministic code whose whole mutable state is in these arrays."""
    h = hashlib.sha256()
    for o in objs:
        if isinstance(o, np.ndarray):
            h.update(str(o.dtype).encode())
            h.update(str(o.shape).encode())
            h.update(np.ascontiguousarray(o).tobytes())
        else:
            h.update(repr(o).encode())
    for e in extra:
        h.update(repr(e).encode())
    return h.hexdigest()[:24]


class BFSResult:
    def __init__(self) -> None:
        self.states = 0
        self.transitions = 0
        self.depth_completed = 0
        self.fails = []
        self.histories = []


def bfs_snap(build, events, apply_event, state_key, check, depth: int, snapshot, restore, max_states: int | None = None) -> BFSResult:
    """Same search as ``bfs`` but a state is re-entered by restoring a snapshot of every mutable
    array/scalar of the system into ONE long-lived object (used where constructing the real objects
    is expensive: numba closures). ``snapshot(obj)`` must capture the whole mutable state."""
    res = BFSResult()
    obj = build()
    seen = {state_key(obj)}
    frontier = collections.deque([([], snapshot(obj))])
    res.states = 1
    while frontier:
        hist, snap = frontier.popleft()
        if len(hist) >= depth:
            continue
        for ev in events:
            restore(obj, snap)
            obs = apply_event(obj, ev)
            res.transitions += 1
            fl = check(obj, hist, ev, obs)
            if fl:
                res.fails.extend(fl)
            k = state_key(obj)
            if k not in seen:
                seen.add(k)
                res.states += 1
                frontier.append((hist + [ev], snapshot(obj)))
                if len(res.histories) < 4:
                    res.histories.append(hist + [ev])
                if max_states is not None and res.states >= max_states:
                    res.depth_completed = len(hist)
                    return res
    res.depth_completed = depth
    return res


def bfs(build, events, apply_event, state_key, check, depth: int, max_states: int | None = None) -> BFSResult:
    """Breadth-first search over event histories on real objects.

    build()                        -> fresh object(s) (the initial state)
    events                         -> list of event labels (small finite menu)
    apply_event(obj, ev)           -> executes ev on the real object; returns an observation
    state_key(obj)                 -> canonical hashable key of the state
    check(obj, hist, ev, obs)      -> list of failures (empty if the invariant holds)

    A state is reached by replaying its history on freshly built objects (live FFTW plans / numba
    dispatchers do not deep-copy).  Every transition out of every distinct state up to ``depth`` is
    executed and checked.
    """
    res = BFSResult()
    obj = build()
    seen = {state_key(obj)}
    frontier = collections.deque([[]])
    res.states = 1
    cur_depth = 0
    while frontier:
        hist = frontier.popleft()
        if len(hist) > cur_depth:
            cur_depth = len(hist)
        if len(hist) >= depth:
            continue
        for ev in events:
            obj = build()
            for e in hist:
                apply_event(obj, e)
            obs = apply_event(obj, ev)
            res.transitions += 1
            fl = check(obj, hist, ev, obs)
            if fl:
                res.fails.extend(fl)
            k = state_key(obj)
            if k not in seen:
                seen.add(k)
                res.states += 1
                frontier.append(hist + [ev])
                if len(res.histories) < 4:
                    res.histories.append(hist + [ev])
                if max_states is not None and res.states >= max_states:
                    res.depth_completed = cur_depth
                    return res
    res.depth_completed = depth
    return res


# ---------------------------------------------------------------------- 4.4 schedules
def interleavings(a: list, b: list):
    """All interleavings of two sequences preserving each one's internal order."""
    n, m = len(a), len(b)
    for pos in itertools.combinations(range(n + m), n):
        out = [None] * (n + m)
        ia = iter(a)
        ib = iter(b)
        ps = set(pos)
        for i in range(n + m):
            out[i] = next(ia) if i in ps else next(ib)
        yield out
