"""C03 - unbounded Poisson solve == aperiodic convolution with the free-space Green's function.

(a) basis : for every enumerated (shape, x_range, dtype) the FULL operator matrix is collected from
            unit impulses on the real solver and compared entry by entry with the reference matrix
            (direct summation, refmodel/greens.py).  Symmetry, absence of periodic images and
            linearity follow from matrix equality; additivity/scaling is re-checked on enumerated pairs.
(b) bfs   : explicit-state search over histories of {solve(e_a), solve(e_b), solve(1e6*dense),
            vector solve, poison(buffer)} on one real solver object; after every transition the
            result must equal what a fresh solver returns, inputs must be untouched and the
            Green's-function table must be unchanged.
"""

from __future__ import annotations

import itertools

import numpy as np

from harness import explore
from harness.core import CaseResult, Fail
from refmodel.greens import greens_matrix

X_RANGES = [1.0, 0.37, 3.0]


def _mk(dim, shape, x_range, dtype):
    import sopht.numeric.eulerian_grid_ops as spne

    if dim == 2:
        return spne.UnboundedPoissonSolverPYFFTW2D(
            grid_size_y=shape[0], grid_size_x=shape[1], x_range=x_range, real_t=dtype
        )
    return spne.UnboundedPoissonSolverPYFFTW3D(
        grid_size_z=shape[0], grid_size_y=shape[1], grid_size_x=shape[2], x_range=x_range, real_t=dtype
    )


def _tol(dtype, scale, ncells):
    # FFT convolution error ~ eps * log2(N) * ||G||; generous but far below any O(1e-3) modelling error
    return 64 * np.finfo(dtype).eps * scale * max(2.0, np.log2(8 * ncells))


def _dense(shape, dtype, k=0):
    n = int(np.prod(shape))
    v = np.array([((7 * i + 3 * k) % 11 - 5) / 4.0 + (0.37 if i % 3 == 0 else -0.21) for i in range(n)])
    return v.reshape(shape).astype(dtype)


def case_basis(dim, shape, x_range, dtype):
    dtype = np.dtype(dtype).type
    shape = tuple(shape)
    fails = []
    solver = _mk(dim, shape, x_range, dtype)
    n = int(np.prod(shape))
    dx = x_range / shape[-1]
    ref = greens_matrix(shape, dx)
    scale = np.abs(ref).max()
    tol = _tol(dtype, scale, n)
    mat = np.empty((n, n))
    sol = np.empty(shape, dtype=dtype)
    cells = list(itertools.product(*[range(s) for s in shape]))
    tag = f"dim={dim}"
    for j, c in enumerate(cells):
        rhs = np.zeros(shape, dtype=dtype)
        rhs[c] = 1
        sol[...] = np.nan
        solver.solve(solution_field=sol, rhs_field=rhs)
        mat[:, j] = sol.ravel()
        if rhs[c] != 1 or np.count_nonzero(rhs) != 1:
            fails.append(Fail(f"{tag}:rhs-modified", "solve() modified its right-hand side", shape=shape, cell=c))
    err = np.abs(mat - ref)
    if not np.all(np.isfinite(mat)) or err.max() > tol:
        i, j = np.unravel_index(np.nanargmax(np.where(np.isfinite(err), err, np.inf)), err.shape)
        periodic = greens_matrix(tuple(2 * s for s in shape), dx)  # only for the diagnosis text
        fails.append(
            Fail(
                f"{tag}:matrix",
                "operator matrix differs from the free-space Green's-function convolution",
                shape=shape, x_range=x_range, dtype=dtype, target=cells[i], source=cells[j],
                got=mat[i, j], want=ref[i, j], tol=tol,
            )
        )
        del periodic
    asym = np.abs(mat - mat.T).max()
    if asym > 2 * tol:
        fails.append(Fail(f"{tag}:symmetry", "operator is not symmetric under source/target exchange", shape=shape, asym=asym, tol=tol))
    # negative control: the oracle must see a 1 % change of the self term
    ctrl = greens_matrix(shape, dx, self_scale=1.01)
    if not np.abs(mat - ctrl).max() > tol and not fails:
        from harness.interp import HarnessError

        raise HarnessError("C03 negative control passed: tolerance too loose to see a 1% self-term change")
    # additivity / homogeneity on enumerated pairs (linearity of the real code path, not of the matrix)
    pairs = [(0, n - 1), (0, 1 % n), (n // 2, n - 1)]
    trans = n
    for a, b in pairs:
        rhs = np.zeros(shape, dtype=dtype)
        rhs[cells[a]] += 1
        rhs[cells[b]] += 2
        solver.solve(solution_field=sol, rhs_field=rhs)
        trans += 1
        want = mat[:, a] + 2 * mat[:, b]
        if np.abs(sol.ravel() - want).max() > 3 * tol:
            fails.append(Fail(f"{tag}:additivity", "solve(e_a + 2 e_b) != solve(e_a) + 2 solve(e_b)", shape=shape, a=cells[a], b=cells[b]))
    dense = _dense(shape, dtype)
    solver.solve(solution_field=sol, rhs_field=dense)
    trans += 1
    want = ref @ dense.ravel().astype(np.float64)
    if np.abs(sol.ravel() - want).max() > tol * np.abs(dense).sum():
        fails.append(Fail(f"{tag}:dense", "dense right-hand side: result differs from direct summation", shape=shape, dtype=dtype))
    # amplitude alphabet: a linear solve has no absolute thresholds
    for amp in (1e-8, 1e-20, 1e10):
        scaled = (dense.astype(np.float64) * amp).astype(dtype)
        sol_a = np.full(shape, np.nan, dtype=dtype)
        solver.solve(solution_field=sol_a, rhs_field=scaled.copy())
        trans += 1
        want_a = ref @ scaled.ravel().astype(np.float64)
        if not np.abs(sol_a.ravel().astype(np.float64) - want_a).max() <= tol * np.abs(scaled.astype(np.float64)).sum():
            fails.append(Fail(f"{tag}:amplitude", "right-hand side scaled by a constant: result is not the direct summation scaled by the same constant", shape=shape, dtype=dtype, amplitude=amp))
    solver.solve(solution_field=sol, rhs_field=dense)
    trans += 1
    # the same solve through a POSITIONAL call in the documented order (solution, right-hand side)
    sol_p = np.full(shape, np.nan, dtype=dtype)
    solver.solve(sol_p, dense.copy())
    trans += 1
    if not np.array_equal(sol_p, sol):
        fails.append(Fail(f"{tag}:positional-call", "solve(solution, rhs) called positionally differs from the keyword call", shape=shape, dtype=dtype))
    if sol.dtype != dtype:
        fails.append(Fail(f"{tag}:dtype", "solution dtype changed"))
    return CaseResult(fails=fails, states=n, transitions=trans, traces=trans,
                      outcome=f"{dim}:{shape}:{round(float(err.max() / scale), 20) > 0}",
                      extra={"max_err_over_scale": float(err.max() / scale), "tol_over_scale": float(tol / scale)})


# ---------------------------------------------------------------------------------- histories
class _Sys:
    def __init__(self, dim, shape, x_range, dtype) -> None:
        self.dim, self.shape, self.dtype = dim, shape, dtype
        self.solver = _mk(dim, shape, x_range, dtype)
        self.sol = np.zeros(shape, dtype=dtype)
        self.vsol = np.zeros((3, *shape), dtype=dtype) if dim == 3 else None
        self.greens = (
            self.solver.fourier_greens_function_times_dx_squared
            if dim == 2
            else self.solver.fourier_greens_function_times_dx_cubed
        )
        self.greens0 = self.greens.copy()


def _rhs(name, shape, dtype):
    n = int(np.prod(shape))
    if name == "a":
        r = np.zeros(shape, dtype=dtype)
        r.ravel()[0] = 1
        return r
    if name == "b":
        r = np.zeros(shape, dtype=dtype)
        r.ravel()[n - 1] = -3
        return r
    if name == "big":
        return (_dense(shape, dtype, 1) * dtype(1e6)).astype(dtype)
    if name == "zero":
        return np.zeros(shape, dtype=dtype)
    raise KeyError(name)


def case_history(dim, shape, x_range, dtype, depth, poison_val):
    dtype = np.dtype(dtype).type
    shape = tuple(shape)
    n = int(np.prod(shape))
    dx = x_range / shape[-1]
    ref = greens_matrix(shape, dx)
    scale = np.abs(ref).max()
    tol = _tol(dtype, scale, n)
    events = [("solve", "a"), ("solve", "b"), ("solve", "big"), ("solve", "zero"), ("poison", "dd"), ("poison", "fourier"), ("poison", "conv")]
    if dim == 3:
        events.insert(3, ("vsolve", ""))
    rhs = {k: _rhs(k, shape, dtype) for k in ("a", "b", "big", "zero")}
    want = {k: (ref @ v.ravel().astype(np.float64)).reshape(shape) for k, v in rhs.items()}
    vrhs = np.stack([rhs["b"], rhs["zero"], rhs["a"]]) if dim == 3 else None
    tag = f"hist:dim={dim}"

    def build():
        return _Sys(dim, shape, x_range, dtype)

    def apply_event(s, ev):
        kind, arg = ev
        if kind == "solve":
            r = rhs[arg].copy()
            # the target is NOT cleared: it holds the previous solution, as the simulators' stream function does
            s.solver.solve(solution_field=s.sol, rhs_field=r)
            return ("solve", arg, np.array_equal(r, rhs[arg]))
        if kind == "vsolve":
            r = vrhs.copy()
            s.solver.vector_field_solve(solution_vector_field=s.vsol, rhs_vector_field=r)
            # bit-for-bit equal to three scalar solves on the same object
            ok = True
            tmp = np.zeros(shape, dtype=dtype)
            for c in range(3):
                s.solver.solve(solution_field=tmp, rhs_field=vrhs[c].copy())
                ok = ok and tmp.tobytes() == s.vsol[c].tobytes()
            return ("vsolve", ok, np.array_equal(r, vrhs))
        buf = {"dd": s.solver.domain_doubled_buffer, "fourier": s.solver.domain_doubled_fourier_buffer, "conv": s.solver.convolution_buffer}[arg]
        buf[...] = poison_val
        return ("poison", arg)

    def state_key(s):
        return explore.array_state_key(
            s.solver.domain_doubled_buffer, s.solver.domain_doubled_fourier_buffer,
            s.solver.convolution_buffer, s.greens, s.sol, *( [s.vsol] if s.vsol is not None else [])
        )

    def check(s, hist, ev, obs):
        fl = []
        h = [list(e) for e in hist] + [list(ev)]
        if not np.array_equal(s.greens.view(np.uint8), s.greens0.view(np.uint8)):
            fl.append(Fail(f"{tag}:greens-table-modified", "the stored Green's-function spectrum changed during a solve", history=h))
        if obs[0] == "solve":
            w = want[obs[1]]
            t = tol * max(1.0, np.abs(rhs[obs[1]]).sum())
            e = np.abs(s.sol - w)
            if not np.all(np.isfinite(s.sol)) or e.max() > t:
                fl.append(Fail(f"{tag}:history-dependence", "result of solve() depends on earlier solves / scratch buffer contents", history=h, err=float(np.nanmax(e)), tol=t, finite=bool(np.all(np.isfinite(s.sol)))))
            if not obs[2]:
                fl.append(Fail(f"{tag}:rhs-modified", "solve() modified its right-hand side", history=h))
        elif obs[0] == "vsolve":
            if not obs[1]:
                fl.append(Fail(f"{tag}:vector-solve", "vector solve differs from three scalar solves on the same object", history=h))
            for c, k in enumerate(("b", "zero", "a")):
                t = tol * max(1.0, np.abs(rhs[k]).sum())
                if not np.all(np.isfinite(s.vsol[c])) or np.abs(s.vsol[c] - want[k]).max() > t:
                    fl.append(Fail(f"{tag}:vector-solve-value", "vector solve component differs from the reference convolution", history=h, component=c))
            if not obs[2]:
                fl.append(Fail(f"{tag}:rhs-modified", "vector_field_solve() modified its right-hand side", history=h))
        return fl

    res = explore.bfs(build, events, apply_event, state_key, check, depth)
    return CaseResult(fails=res.fails, states=res.states, transitions=res.transitions, traces=res.transitions,
                      outcome=f"hist:{dim}:{shape}:{res.states}",
                      extra={"depth": res.depth_completed, "bfs_states": res.states, "example_histories": res.histories})


def case_sequence(dim, shape, order, dtype):
    """Construction history: several solvers of the same shape but different domain length (and a
    different shape in between) built in ONE process, each then checked against the reference."""
    dtype = np.dtype(dtype).type
    shape = tuple(shape)
    fails = []
    trans = 0
    n = int(np.prod(shape))
    seq = [X_RANGES[i] for i in order]
    other = tuple(reversed(shape))
    for k, xr in enumerate(seq):
        solver = _mk(dim, shape, xr, dtype)
        if k == 0:
            _mk(dim, other, xr * 0.5, dtype)  # an unrelated solver in between
        ref = greens_matrix(shape, xr / shape[-1])
        tol = _tol(dtype, np.abs(ref).max(), n)
        rhs = _dense(shape, dtype, k)
        sol = np.zeros(shape, dtype=dtype)
        solver.solve(solution_field=sol, rhs_field=rhs)
        trans += 1
        want = (ref @ rhs.ravel().astype(np.float64)).reshape(shape)
        if not np.all(np.isfinite(sol)) or np.abs(sol - want).max() > tol * np.abs(rhs).sum():
            fails.append(Fail(f"dim={dim}:construction-history", "a solver built after another solver (same shape, different domain length) in the same process gives a wrong result", shape=shape, x_ranges=seq, position=k, dtype=dtype))
    return CaseResult(fails=fails, states=len(seq), transitions=trans, traces=trans, outcome=f"seq:{dim}:{shape}:{order}")


CASES = {"basis": case_basis, "history": case_history, "sequence": case_sequence}


def run(r) -> None:
    quick = r.tier == "quick"
    r.bind_model(only=[f"gen_{k}_pyst_kernel_{d}d" for k in ("set_fixed_val", "elementwise_copy", "elementwise_complex_product") for d in (2, 3)])
    s2 = range(2, 6) if quick else range(2, 10)
    s3 = range(2, 4) if quick else range(2, 7)
    shapes2 = list(itertools.product(s2, s2))
    shapes3 = list(itertools.product(s3, s3, s3))
    if quick:
        shapes2 += [(7, 6), (6, 7)]
        shapes3 += [(4, 3, 5), (5, 4, 2)]
    # sizes with prime factors 7 .. 31 (7, 11, 13, 14, 17, 19, 23, 29, 31) and 8, 9, 16 on every axis position (FFT lengths that padding heuristics treat differently)
    for n in (7, 11, 13, 14, 9, 8, 16, 17, 19, 23, 29, 31):
        shapes2 += [(n, 2), (3, n)]
        shapes3 += [(n, 2, 3), (2, n, 2), (3, 2, n)]
    shapes2 = list(dict.fromkeys(shapes2))
    shapes3 = list(dict.fromkeys(shapes3))
    dts = ["float64", "float32"]
    basis = []
    for shape in shapes2:
        for xr in X_RANGES:
            for dt in dts:
                basis.append(dict(dim=2, shape=shape, x_range=xr, dtype=dt))
    for shape in shapes3:
        for xr in (X_RANGES if not quick else [X_RANGES[(sum(shape) + r.seed) % 3]]):
            for dt in dts:
                basis.append(dict(dim=3, shape=shape, x_range=xr, dtype=dt))
    # very small and very large domain lengths (absolute tolerances / offsets that do not scale with the domain)
    for shape in ((4, 6), (7, 5), (3, 4, 5), (5, 2, 4)):
        for xr in (1e-3, 1e-6, 1e3):
            for dt in dts:
                basis.append(dict(dim=len(shape), shape=shape, x_range=xr, dtype=dt))
    # one LONG axis (beyond 256 cells, each axis in turn): narrow index types, blocked loops and padded FFT lengths
    # only show beyond their size threshold
    for shape, dt in (((2, 300), "float64"), ((300, 2), "float64"), ((3, 270), "float32"), ((2, 2, 280), "float64"), ((2, 280, 2), "float32"), ((280, 2, 2), "float64")):
        basis.append(dict(dim=len(shape), shape=shape, x_range=X_RANGES[0] if len(shape) == 2 else X_RANGES[2], dtype=dt))
    basis.sort(key=lambda p: -int(np.prod(p["shape"])) ** 2)
    r.run_cases("basis", "basis", basis)
    depth = 3 if quick else 5
    hist = []
    for dim, shape in ((2, (3, 4)), (2, (4, 3)), (3, (2, 3, 4)), (3, (3, 2, 2))):
        for dt in dts:
            for pv in (float("nan"), 1e30):
                hist.append(dict(dim=dim, shape=shape, x_range=X_RANGES[(r.seed + dim) % 3], dtype=dt, depth=depth, poison_val=pv))
    r.run_cases("history", "history", hist)
    seqs = [dict(dim=d, shape=sh, order=list(o), dtype=dt) for d, sh in ((2, (4, 6)), (3, (3, 4, 5))) for o in itertools.permutations(range(3)) for dt in dts]
    r.run_cases("construction-sequences", "sequence", seqs)
    r.bounds = {
        "shapes_2d": f"{{{s2.start}..{s2.stop - 1}}}^2" + (" + (7,6),(6,7)" if quick else ""),
        "shapes_3d": f"{{{s3.start}..{s3.stop - 1}}}^3" + (" + (4,3,5),(5,4,2)" if quick else ""),
        "x_range": X_RANGES + [1e-3, 1e-6, 1e3], "long_axis_shapes": "2 x 300, 300 x 2, 3 x 270, 2 x 2 x 280 (long axis in every position)", "dtypes": dts, "history_depth": depth,
        "history_alphabet": "solve(e_first), solve(-3 e_last), solve(1e6*dense), solve(0), vector solve with one zero component (3-D), poison(doubled|fourier|convolution buffer) with NaN and 1e30; solution target never cleared between solves",
    }
    r.extra["rule"] = (
        "basis: every unit impulse of every enumerated shape on the real solver (state = one matrix column); "
        "history: BFS over event histories on real solver objects, state = bytes of all buffers + last solution"
    )
    r.assumptions = [
        "FFTW is an opaque linear operator; results compared up to 64 eps log2(8N) ||G||, never bitwise across solver objects",
        "element-wise kernels run on the interpreter back end (bound to the JIT by harness/conform.py)",
    ]
