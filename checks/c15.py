"""C15 - results do not depend on thread count or iteration order.

(a) schedule exploration on the model of EVERY captured kernel (the assignment collection handed to
    the code generator, bound to the generated code by conformance replay), on tiny grids:
      (i)   all iteration orders (every permutation of 4-6 cells along each axis, and of a 2^d block)
            executed cell by cell on real bytes - exactly one distinct final state allowed;
      (ii)  two threads owning two cells each, every cell update split into READ and WRITE steps: all
            70 interleavings x all assignments of four mutually reachable cells - must equal sequential;
      (iii) pairwise commutation of cell updates for all ordered pairs on a larger grid.
(b) call-site monitor: during real simulator steps / solver calls over the configuration lattice,
    every kernel call is inspected: a written array may overlap a read array only as the identical
    view with centre-only access.
(c) spreading accumulates in fixed serial marker order: markers forced into one cell with power-of-two
    weights and forces 2^60, 1, -2^60 (every accumulation order gives different bytes; the marker-order
    one must be returned), under NUMBA_NUM_THREADS 1 and 4; no communicator closure is compiled parallel.
(d) supplementary (thorough): JIT kernels with different OpenMP thread counts agree bit for bit.
"""

from __future__ import annotations

import itertools
import json
import os
import subprocess
import sys

import numpy as np

from harness import explore, registry, shim, simcfg
from harness.core import CaseResult, Fail


def _arrays(ck, shape, dtype, seed=0):
    names = sorted(ck.fields)
    out = {}
    n = int(np.prod(shape))
    for k, nm in enumerate(names):
        i = np.arange(n, dtype=np.float64)
        v = np.sin(0.83 * i + 1.1 * k + seed) * 1.3 + 0.29 * (((i * 3 + k) % 5) - 2)
        v = np.where(np.abs(v) < 0.1, 0.45, v)
        if nm.startswith("char"):
            v = np.abs(v) / (1 + np.abs(v))
        out[nm] = v.reshape(shape).astype(dtype)
    scal = {s.name: 0.6 + 0.37 * k for k, s in enumerate(ck.params)}
    return out, scal


def _state_bytes(arrs):
    return b"".join(arrs[k].tobytes() for k in sorted(arrs))


def _candidate_shapes(ck, lo, hi):
    d = ck.ndim
    out = []
    for shape in itertools.product(range(1, 9), repeat=d):
        try:
            reg = ck.region(shape)
        except Exception:  # noqa: BLE001
            continue
        cells = int(np.prod([max(0, s.stop - s.start) for s in reg]))
        if lo <= cells <= hi and all(n >= 2 * ck.reach + 1 for n in shape):
            out.append((shape, cells))
    return out


def explore_kernel(ck, tier):
    """Returns (fails, stats) for one captured kernel."""
    dtype = ck.dtype or np.float64
    kc = ck.compile()
    fails = []
    stats = {"orders": 0, "interleavings": 0, "pairs": 0, "distinct_final_states_max": 1}
    g = ck.reach
    d = ck.ndim
    # ---------------- (i) all iteration orders
    shapes = []
    if ck.iteration_slice is None:
        ns = (4,) if tier == "quick" else (4, 5)
        for a in range(d):
            for n in ns:
                shapes.append(tuple(n + 2 * g if q == a else 1 + 2 * g for q in range(d)))
        if d <= 3:
            shapes.append(tuple(2 + 2 * g for _ in range(d)))  # 2^d block: 4 / 8 cells
    else:
        cand = _candidate_shapes(ck, 4, 6)
        shapes = [c[0] for c in cand[:2]]
    for shape in shapes:
        cells = kc.cell_indices(shape)
        if len(cells) > (6 if tier == "quick" else 8) or len(cells) < 2:
            if not (len(cells) == 8 and tier != "quick"):
                if len(cells) > 6:
                    continue
        arrs0, scal = _arrays(ck, shape, dtype)
        finals = {}
        for order in itertools.permutations(cells):
            arrs = {k: v.copy() for k, v in arrs0.items()}
            kc.run_order(order, **arrs, **scal)
            stats["orders"] += 1
            b = _state_bytes(arrs)
            if b not in finals:
                finals[b] = order
                if len(finals) > 1:
                    break
        stats["distinct_final_states_max"] = max(stats["distinct_final_states_max"], len(finals))
        if len(finals) > 1:
            o = list(finals.values())
            fails.append(Fail("kernel:iteration-order", "a generated kernel's result depends on the cell iteration order", kernel=ck.origin, shape=shape, order_a=[list(c) for c in o[0]], order_b=[list(c) for c in o[1]],
                              loop_carried_reads=[[n, list(off)] for n, off in ck.loop_carried]))
            break
    # ---------------- (ii) two threads, read/write split
    if not fails:
        axes = range(d)
        for a in axes:
            shape = tuple(4 + 2 * g if q == a else 1 + 2 * g for q in range(d))
            if ck.iteration_slice is not None:
                cand = _candidate_shapes(ck, 4, 4)
                if not cand:
                    break
                shape = cand[0][0]
            cells = kc.cell_indices(shape)
            if len(cells) != 4:
                continue
            arrs0, scal = _arrays(ck, shape, dtype, seed=1)
            seq = {k: v.copy() for k, v in arrs0.items()}
            kc.run_order(cells, **seq, **scal)
            want = _state_bytes(seq)
            bad = None
            for split in itertools.combinations(range(4), 2):
                rest = [i for i in range(4) if i not in split]
                for ta in itertools.permutations(split):
                    for tb in itertools.permutations(rest):
                        A = [("R", cells[ta[0]]), ("W", cells[ta[0]]), ("R", cells[ta[1]]), ("W", cells[ta[1]])]
                        B = [("R", cells[tb[0]]), ("W", cells[tb[0]]), ("R", cells[tb[1]]), ("W", cells[tb[1]])]
                        for sched in explore.interleavings([("A", s) for s in A], [("B", s) for s in B]):
                            arrs = {k: v.copy() for k, v in arrs0.items()}
                            fields, scalars, _ = kc.bind({**arrs, **scal})
                            pending = {}
                            for who, (op, cell) in sched:
                                if op == "R":
                                    pending[(who, cell)] = kc.read_cell(fields, scalars, cell)
                                else:
                                    kc.write_cell(fields, pending.pop((who, cell)))
                            stats["interleavings"] += 1
                            if _state_bytes(arrs) != want:
                                bad = [[who, op, list(cell)] for who, (op, cell) in sched]
                                break
                        if bad:
                            break
                    if bad:
                        break
                if bad:
                    break
            if bad:
                fails.append(Fail("kernel:thread-interleaving", "two threads updating neighbouring cells (read/write split) can produce a result different from the sequential one", kernel=ck.origin, shape=shape, schedule=bad))
                break
            if ck.iteration_slice is not None:
                break
    # ---------------- (iii) pairwise commutation on a larger grid
    if not fails:
        if ck.iteration_slice is None:
            shape = tuple(3 + 2 * g for _ in range(d)) if d <= 3 else tuple(2 + 2 * g for _ in range(d))
        else:
            cand = _candidate_shapes(ck, 8, 30)
            shape = cand[0][0] if cand else None
        if shape is not None:
            cells = kc.cell_indices(shape)
            arrs0, scal = _arrays(ck, shape, dtype, seed=2)
            for a, b in itertools.combinations(cells, 2):
                x = {k: v.copy() for k, v in arrs0.items()}
                y = {k: v.copy() for k, v in arrs0.items()}
                kc.run_order([a, b], **x, **scal)
                kc.run_order([b, a], **y, **scal)
                stats["pairs"] += 1
                if _state_bytes(x) != _state_bytes(y):
                    fails.append(Fail("kernel:commutation", "two cell updates of one kernel do not commute", kernel=ck.origin, cells=[list(a), list(b)]))
                    break
    return fails, stats


def case_kernels(name, opts, dtype, tier, keys):
    real_t = np.dtype(dtype).type
    n0 = len(shim.KERNELS)
    registry.instantiate(name, opts, real_t, False)
    fails = []
    tot = {"orders": 0, "interleavings": 0, "pairs": 0, "kernels": 0, "distinct_final_states_max": 1}
    todo = set(keys)
    for ck in shim.KERNELS[n0:]:
        if ck.ir_key not in todo:
            continue
        todo.discard(ck.ir_key)
        fl, st = explore_kernel(ck, tier)
        fails += fl
        tot["kernels"] += 1
        for k in ("orders", "interleavings", "pairs"):
            tot[k] += st[k]
        tot["distinct_final_states_max"] = max(tot["distinct_final_states_max"], st["distinct_final_states_max"])
    return CaseResult(fails=fails, states=tot["orders"] + tot["interleavings"] + tot["pairs"], transitions=tot["orders"] + tot["interleavings"] + 2 * tot["pairs"], traces=0,
                      outcome=f"{name}:{dtype}:{tot['kernels']}:{tot['distinct_final_states_max']}", extra=tot)


def case_control(dummy):
    """Negative controls: a kernel with a loop-carried read MUST be reported by (i), (ii) and (iii);
    an aliased call MUST be reported by the call-site monitor."""
    import pystencils as ps

    @ps.kernel
    def bad():
        f, g = ps.fields("f, g : float64[2D]")
        f[0, 0] @= f[0, -1] + g[0, 0]

    cfg = ps.CreateKernelConfig(data_type="float64", cpu_openmp=False)
    ck = ps.create_kernel(bad, config=cfg)
    fl, st = explore_kernel(ck, "quick")
    from harness.interp import HarnessError

    if not any(f["key"] == "kernel:iteration-order" for f in fl):
        raise HarnessError("C15 control: loop-carried kernel not reported by the order exploration")
    # interleaving explorer alone
    ck.loop_carried = []

    @ps.kernel
    def good():
        f, g = ps.fields("f, g : float64[2D]")
        f[0, 0] @= f[0, 0] + g[0, -1]

    ck2 = ps.create_kernel(good, config=cfg)
    fl2, st2 = explore_kernel(ck2, "quick")
    if fl2:
        raise HarnessError("C15 control: independent kernel reported")
    kc = ck2.compile()
    a = np.arange(30.0).reshape(5, 6)
    hz = kc.hazards({"f": a, "g": a})
    if not hz:
        raise HarnessError("C15 control: aliased output/neighbour-read input not reported by the monitor")
    if kc.hazards({"f": a, "g": a.copy()}):
        raise HarnessError("C15 control: distinct arrays reported as hazard")
    return CaseResult(states=st["orders"] + st2["orders"], transitions=st["orders"] + st2["orders"], traces=0, outcome="control")


def case_callsites(cfg, steps, seed):
    """Run a real simulator configuration with the call-site monitor installed."""
    hazards = []
    calls = [0]

    def mon(kc, fields, scalars):
        calls[0] += 1
        for h in kc.hazards(fields):
            hazards.append((kc.ck.origin, h))

    shim.MONITORS.append(mon)
    try:
        c = simcfg.normalise(cfg)
        sim = simcfg.make_sim(c)
        simcfg.load_state(sim, c, "generic", "generic", "generic", margin=2, seed=seed)
        for s in range(steps):
            kw = {"free_stream_velocity": simcfg.free_stream(c, seed)} if c["stream"] else {}
            sim.time_step(dt=c["params"][0], **kw)
            sim.compute_stable_timestep()
            if hasattr(sim, "get_vorticity_divergence_l2_norm"):
                sim.get_vorticity_divergence_l2_norm()
    finally:
        shim.MONITORS.remove(mon)
    fails = []
    seen = set()
    for origin, (w, r, off, why) in hazards:
        key = (origin, w, r)
        if key in seen:
            continue
        seen.add(key)
        fails.append(Fail(f"callsite:{origin.split(':')[1]}", f"kernel call binds overlapping memory: {why}", kernel=origin, written=w, read=r, offset=list(off) if off else None, cfg=c))
    return CaseResult(fails=fails, states=calls[0], transitions=calls[0], traces=calls[0], outcome=f"{c['kind']}:{calls[0] > 0}", extra={"kernel_calls_inspected": calls[0]})


def case_interaction_callsites(dim, reset):
    from checks import c10

    hazards = []
    calls = [0]

    def mon(kc, fields, scalars):
        calls[0] += 1
        for h in kc.hazards(fields):
            hazards.append((kc.ck.origin, h))

    shim.MONITORS.append(mon)
    try:
        s = c10.System(dim, 2, reset, "float64")
        for ev in [("E", 0), ("Ta", 0), ("E", 1), ("L", 0), ("M", 1), ("E", 1), ("F", None), ("E", 0)]:
            s.apply(ev)
    finally:
        shim.MONITORS.remove(mon)
    fails = [Fail("callsite:interaction", f"kernel call binds overlapping memory: {h[3]}", kernel=o) for o, h in hazards[:1]]
    return CaseResult(fails=fails, states=max(calls[0], 1), transitions=max(calls[0], 1), traces=calls[0], outcome=f"interaction:{dim}:{reset}:{calls[0]}")


_SPREAD_SCRIPT = r"""
import sys, json, os
sys.path.insert(0, %(verif)r)
from harness import shim
shim.install()
import numpy as np
from harness import lagcomm
out = []
for dim in (2, 3):
    for ncomp in (1, dim):
      # marker layouts: all on one cell centre; cell centres stepping -1 / 0 / +1 along ONE axis in an order that is
      # sorted along no axis (a sweep ordered by row, column or plane index instead of marker index must show)
      for layout in ["same-cell"] + ["axis%%d" %% a for a in range(dim)]:
        dx = 0.125
        shape = lagcomm.SHAPES[dim]
        comm = lagcomm.Comm(dim, "cosine", np.float64, dx, n_components=ncomp)
        n = comm.n
        cell = [s // 2 for s in shape]
        steps = [1, -1, 0, 1, 0, -1, 1, 0]
        P = np.zeros((dim, n))
        for k in range(dim):
            P[k, :] = (cell[dim - 1 - k] + 0.5) * dx
            if layout == "axis%%d" %% k:
                P[k, :] += np.array(steps[:n]) * dx
        comm.locate(P.copy())
        forces = [2.0**60, 1.0, -(2.0**60), 3.0, 2.0**59, -(2.0**59), 0.5, -4.0]
        # the weight each marker gives to the target cell, read from the kernel's own weight array
        wts = []
        for m in range(n):
            win = comm.window(m)
            pos = tuple(int(np.where(win[a] == cell[a])[0][0]) for a in range(dim))
            wts.append(float(comm.weights[pos + (m,)]))
        wmax = max(wts)
        ratio = [wmax / w_ for w_ in wts]  # powers of two: force x weight reproduces the same exact products in every layout
        lag = np.zeros((n,) if ncomp == 1 else (ncomp, n))
        if ncomp == 1:
            lag[:] = np.array(forces) * np.array(ratio)
        else:
            for c in range(ncomp):
                lag[c] = np.roll(forces, c) * np.array(ratio)
        eul = np.zeros(shape if ncomp == 1 else (ncomp, *shape))
        comm.spread(eul, lag)
        idx = tuple(cell)
        got = [float(eul[idx])] if ncomp == 1 else [float(eul[(c, *idx)]) for c in range(ncomp)]
        wc = wmax
        par = {k: bool(getattr(getattr(comm.c, k), "targetoptions", {}).get("parallel", False)) for k in ("lagrangian_to_eulerian_grid_interpolation_kernel", "eulerian_to_lagrangian_grid_interpolation_kernel", "local_eulerian_grid_support_of_lagrangian_grid_kernel", "interpolation_weights_kernel")}
        out.append({"dim": dim, "ncomp": ncomp, "layout": layout, "got": got, "wc": wc, "w": wts, "ratio": ratio, "forces": forces, "parallel": par})
print("RESULT" + json.dumps(out))
"""


def case_spreading_order(threads):
    env = dict(os.environ)
    env["NUMBA_NUM_THREADS"] = str(threads)
    r = subprocess.run([sys.executable, "-c", _SPREAD_SCRIPT % {"verif": str(shim.VERIF)}], capture_output=True, text=True, env=env)
    line = [l for l in r.stdout.splitlines() if l.startswith("RESULT")]
    if not line:
        from harness.interp import HarnessError

        raise HarnessError("spreading-order subprocess failed: " + r.stderr[-800:])
    res = json.loads(line[0][6:])
    fails = []
    states = 0
    for rec in res:
        wc = rec["wc"]
        if wc != 2.0 ** round(np.log2(wc)):
            from harness.interp import HarnessError

            raise HarnessError(f"cell-centre weight {wc} is not a power of two: alphabet invalid")
        forces = rec["forces"]
        for c, got in enumerate(rec["got"]):
            fs = list(np.roll(forces, c)) if rec["ncomp"] > 1 else forces
            fs = [f * q for f, q in zip(fs, rec.get("ratio", [1.0] * len(fs)))]
            # reference: serial accumulation in marker order; and the set of results of ALL orders of the first 4
            ws = rec.get("w", [wc] * len(fs))
            acc = 0.0
            for f, w_m in zip(fs, ws):
                acc = acc + f * w_m
            orders = set()
            for perm in itertools.permutations(range(len(fs))) if len(fs) <= 4 else itertools.islice(itertools.permutations(range(len(fs))), 5040):
                a = 0.0
                for i in perm:
                    a = a + fs[i] * ws[i]
                orders.add(a)
            states += 1
            if len(orders) < 2:
                from harness.interp import HarnessError

                raise HarnessError("spreading-order alphabet does not distinguish accumulation orders")
            if got != acc:
                fails.append(Fail("spreading:accumulation-order", "spreading did not accumulate marker contributions in serial marker order", layout=rec.get("layout"), dim=rec["dim"], ncomp=rec["ncomp"], component=c, got=got, marker_order_result=acc, threads=threads, other_order_results=sorted(orders)[:4]))
        for k, v in rec["parallel"].items():
            if v:
                fails.append(Fail("spreading:parallel-dispatcher", "a communicator closure is compiled with parallel=True", closure=k, dim=rec["dim"]))
    return CaseResult(fails=fails, states=states, transitions=states, traces=states, outcome=f"spread:{threads}")


_TRANSFER_SCRIPT = r"""
import sys, json, os, pkgutil, importlib
sys.path.insert(0, %(verif)r)
from harness import shim
shim.install()
import numpy as np
from harness import bodies
out = {"results": {}, "parallel": []}
# (a) the body-side reductions of every forcing grid with MANY markers (a threaded reduction changes its rounding
#     with the number of numba threads)
def gen(shape, k):
    i = np.arange(int(np.prod(shape)), dtype=np.float64)
    return (np.sin(0.37 * i + k) * (1.0 + 0.001 * i) + 0.1 * np.cos(5.1 * i)).reshape(shape)
for kind, n in (("cylinder2d", 257), ("cylinder3d", 12), ("sphere", 24), ("plane", 16)):
    rot = (bodies.rotations_2d() if kind == "cylinder2d" else bodies.rotations_3d())[-1]
    body, grid = bodies.make_rigid(kind, rot, np.array([1.0, 2.0, 0.0 if kind == "cylinder2d" else 3.0]), n_points=n)
    d = grid.grid_dim
    F, T = np.zeros((3, 1)), np.zeros((3, 1))
    grid.transfer_forcing_from_grid_to_body(body_flow_forces=F, body_flow_torques=T, lag_grid_forcing_field=gen((d, grid.num_lag_nodes), 1))
    out["results"][kind] = [F.tobytes().hex(), T.tobytes().hex(), int(grid.num_lag_nodes)]
for kind in bodies.ROD_GRIDS:
    planar = bodies.rod_grid_is_planar(kind)
    rod = bodies.make_rod(5, True, True, rot=None, planar=planar, seed=1)
    grid = bodies.make_rod_grid(kind, rod, density=24)
    d = grid.grid_dim
    F, T = np.zeros((3, 6)), np.zeros((3, 5))
    grid.transfer_forcing_from_grid_to_body(body_flow_forces=F, body_flow_torques=T, lag_grid_forcing_field=gen((d, grid.num_lag_nodes), 2))
    out["results"]["rod:" + kind] = [F.tobytes().hex(), T.tobytes().hex(), int(grid.num_lag_nodes)]
# (b) no numba dispatcher of the package may be compiled with parallel=True (auto-parallel reductions are scheduled
#     by thread count)
import sopht
for m in pkgutil.walk_packages(sopht.__path__, "sopht."):
    try:
        mod = importlib.import_module(m.name)
    except Exception:
        continue
    objs = list(vars(mod).items())
    for _n, o in list(objs):
        if isinstance(o, type):
            objs += [(_n + "." + k, v) for k, v in vars(o).items()]
    for name, o in objs:
        o = getattr(o, "__func__", o)
        to = getattr(o, "targetoptions", None)
        if isinstance(to, dict) and to.get("parallel") and getattr(o, "__module__", "").startswith("sopht"):
            out["parallel"].append(m.name + ":" + name)
print("RESULT" + json.dumps(out))
"""


def case_numba_threads(threads):
    """Coupling routines under different numbers of numba threads (fresh process per setting): the body-side force /
    torque reductions of every forcing grid must be bit-identical, and no dispatcher may be an auto-parallel one."""
    runs = {}
    for t in threads:
        env = dict(os.environ)
        env["NUMBA_NUM_THREADS"] = str(t)
        r = subprocess.run([sys.executable, "-c", _TRANSFER_SCRIPT % {"verif": str(shim.VERIF)}], capture_output=True, text=True, env=env)
        line = [l for l in r.stdout.splitlines() if l.startswith("RESULT")]
        if not line:
            from harness.interp import HarnessError

            raise HarnessError("numba-threads subprocess failed: " + r.stderr[-800:])
        runs[t] = json.loads(line[0][6:])
    fails = []
    base = runs[threads[0]]
    states = 0
    for t in threads[1:]:
        for kind, rec in runs[t]["results"].items():
            states += 1
            if rec != base["results"][kind]:
                fails.append(Fail("coupling:thread-count", "force / torque transferred to the body differs bit-wise between numbers of numba threads", grid=kind, markers=rec[2], threads=[threads[0], t]))
    for name in sorted(set(sum((runs[t]["parallel"] for t in threads), []))):
        fails.append(Fail("coupling:parallel-dispatcher", "a numba function of the package is compiled with parallel=True (its reductions are scheduled by thread count)", function=name))
    return CaseResult(fails=fails, states=states, transitions=len(threads) * len(base["results"]), traces=len(threads), outcome=f"numba-threads:{threads}:{len(base['results'])}")


def case_jit_threads(name, opts, dtype):
    """Supplementary (not deciding): the generated code under different OpenMP thread counts."""
    real_t = np.dtype(dtype).type
    results = {}
    fails = []
    n = 0
    # OpenMP builds only: num_threads=False is a different (serial) build whose -Ofast contraction may round
    # differently; the property is about the NUMBER of threads of one build
    for th in (1, 2, 3, 4, 16):
        n0 = len(shim.KERNELS)
        registry.instantiate(name, opts, real_t, th)
        for k, ck in enumerate(shim.KERNELS[n0:]):
            jit = ck.jit()
            if jit is None or ck.loop_carried:
                continue
            shape = tuple(9 + q for q in range(ck.ndim)) if ck.iteration_slice is None else tuple(9 for _ in range(ck.ndim))
            arrs, scal = _arrays(ck, shape, real_t)
            os.environ["OMP_NUM_THREADS"] = str(th if th else 1)
            jit(**arrs, **{a: real_t(b) for a, b in scal.items()})
            n += 1
            b = _state_bytes(arrs)
            if (k, ck.ir_key) in results and results[(k, ck.ir_key)] != b:
                fails.append(Fail("jit:thread-count", "generated kernel gives different bytes under a different OpenMP thread count", kernel=ck.origin, threads=th))
            results.setdefault((k, ck.ir_key), b)
    return CaseResult(fails=fails, states=n, transitions=n, traces=n, outcome=f"jit:{name}:{n}")


CASES = {"numba_threads": case_numba_threads, "kernels": case_kernels, "control": case_control, "callsites": case_callsites, "interaction_callsites": case_interaction_callsites,
         "spreading_order": case_spreading_order, "jit_threads": case_jit_threads}


def run(r) -> None:
    r.bind_model()
    quick = r.tier == "quick"
    r.run_cases("negative-controls", "control", [dict(dummy=0)], parallel=False)
    # unique kernels -> one task per generator instantiation that first creates them
    need = {}
    seen = set()
    for name, opts in registry.entries():
        for dt in ("float64", "float32"):
            n0 = len(shim.KERNELS)
            registry.instantiate(name, opts, np.dtype(dt).type, False)
            keys = [ck.ir_key for ck in shim.KERNELS[n0:] if ck.ir_key not in seen]
            seen.update(keys)
            if keys:
                need[(name, json.dumps(opts, sort_keys=True), dt)] = keys
    tasks = [dict(name=n, opts=json.loads(o), dtype=dt, tier=r.tier, keys=k) for (n, o, dt), k in need.items()]
    r.run_cases("kernel-schedules", "kernels", tasks)
    r.extra["unique_kernels_explored"] = len(seen)
    # (b) call sites
    axes_ns = {"forcing": [True, False], "stream": [True, False], "width": [2, 0, 1, 3, 4], "dtype": ["float64", "float32"]}
    lat = {"ns2d": axes_ns, "ns3d": {**axes_ns, "filter": [None] + [[t, o] for t in ("multiplicative", "convolution") for o in (1, 2, 3)], "poisson": ["greens", "fastdiag"]},
           "pt2d": {"dtype": ["float64", "float32"]}, "pt3ds": {"dtype": ["float64", "float32"]}, "pt3dv": {"dtype": ["float64", "float32"]}}
    cs = []
    for kind, axes in lat.items():
        for pt in explore.lattice(axes, 2 if quick else None):
            cs.append(dict(cfg={"kind": kind, **pt}, steps=2, seed=r.seed))
    r.run_cases("call-site-monitor", "callsites", cs, chunksize=4)
    r.run_cases("call-site-monitor-interaction", "interaction_callsites", [dict(dim=d, reset=x) for d in (2, 3) for x in (False, True)])
    r.run_cases("spreading-order", "spreading_order", [dict(threads=t) for t in (1, 4)])
    r.run_cases("coupling-numba-threads", "numba_threads", [dict(threads=[1, 2, 3, 4, 7])])
    if not quick:
        jt = [dict(name=n, opts=o, dtype="float64") for n, o in registry.entries() if n.endswith("_3d")][:40]
        r.run_cases("jit-thread-counts(supplementary)", "jit_threads", jt)
    r.bounds = {"orders": "all permutations of 4" + ("" if quick else "-5") + " cells along each axis and of the 2^d block (<= 8 cells thorough, <= 6 quick)", "interleavings": "70 per assignment x 24 assignments per axis",
                "pairs": "all unordered pairs on a (3+2g)^d grid", "callsite_configs": len(cs)}
    r.extra["rule"] = "states = executed schedules (iteration orders + read/write interleavings + commutation pairs) on the kernel model, plus kernel calls inspected by the call-site monitor"
    r.assumptions = ["thread schedules are explored on the model at cell-update (read/write) granularity; hardware memory ordering, vectorisation and false sharing are not modelled (DESIGN section 6)",
                     "the model (assignment collection + iteration region) is bound to the generated code by conformance replay; FFT calls are outside the kernels"]
