"""C01 - one flow time step realises the documented vorticity-velocity discretisation.

Deviation-bounded lattice over simulator class x {forcing, free stream, filter type/order, Poisson
solver, zone width 0..4, precision, grid shape, (dt, nu, rho)} x state / velocity / forcing patterns;
histories of 1 and 2 consecutive steps (the second starts from a non-initial state with dirty
scratch buffers).  Oracle: refmodel/flowstep.py (independent NumPy float64 implementation with
direct-summation Green's function / dense Neumann solve).  Also: time advances by exactly dt, the
forcing field is identically zero on return, no other public array changes.
"""

from __future__ import annotations

import numpy as np

from harness import explore, simcfg
from harness.core import CaseResult, Fail
from refmodel import flowstep

SHAPES = {2: [(12, 14), (15, 13)], 3: [(10, 11, 12), (12, 10, 11)]}
PARAMS = [[1e-2, 1e-1, 1.7], [3e-3, 2e-2, 2.5], simcfg.DEFAULT_PARAMS]
X_RANGES = [1.0, 2.5, 0.3]  # domain length along x (dx = x_range / nx is not 1 / nx in general)
FILTERS = [None] + [[t, o] for t in ("multiplicative", "convolution") for o in (1, 2, 3)]


ARG_TYPES = ["python", "numpy64", "real_t", "sequence"]  # how dt and the free stream are handed to time_step


def case_step(cfg, state, velocity, forcing, steps, seed, backend="interp", arg_types="python"):
    from harness import shim

    shim.set_backend(backend)
    try:
        return _case_step(cfg, state, velocity, forcing, steps, seed, backend, arg_types)
    finally:
        shim.set_backend("interp")


def _case_step(cfg, state, velocity, forcing, steps, seed, backend, arg_types="python"):
    c = simcfg.normalise(cfg)
    kind = c["kind"]
    d = simcfg.dim_of(kind)
    real_t = np.dtype(c["dtype"]).type
    eps = float(np.finfo(real_t).eps)
    dt, nu, rho = c["params"]
    fails = []
    sim = simcfg.make_sim(c)
    # the impulse patterns sit inside / at the edge of the zone on purpose
    # 'generic' / 'checker' fill the WHOLE grid including the outermost ring (every admissible state)
    margin = 0 if state in ("generic", "checker", "single-component") else max(1, c["width"])
    simcfg.load_state(sim, c, state, velocity, forcing, margin=margin, seed=seed)
    tag = f"{kind}"
    # grid geometry from the documentation, NOT from the simulator: dx = x_range / nx (in the working
    # precision), cell centres at (i + 1/2) dx along every axis, x along the LAST array axis
    dx = float(real_t(c["x_range"] / c["shape"][-1]))
    if float(sim.dx) != dx:
        fails.append(Fail(f"{tag}:grid-spacing", "simulator grid spacing is not x_range / grid_size_x in the working precision", got=float(sim.dx), want=dx, cfg=c))
    pos = np.asarray(sim.position_field, dtype=np.float64)
    for ax in range(d):  # component ax of position_field varies along array axis d-1-ax
        want = (np.arange(c["shape"][d - 1 - ax]) + 0.5) * (c["x_range"] / c["shape"][-1])
        got_ax = np.moveaxis(pos[ax], d - 1 - ax, -1)
        if pos.shape != (d, *c["shape"]) or not np.all(np.abs(got_ax - want) <= 8 * eps * c["x_range"] * max(c["shape"]) / c["shape"][-1]):
            fails.append(Fail(f"{tag}:grid-coordinates", "cell-centre coordinate field is not (i + 1/2) dx along the documented axis", component=ax, cfg=c))
            break
    t_expected = float(c["time0"])  # the clock starts at the time given to the constructor
    if float(sim.time) != t_expected:
        fails.append(Fail(f"{tag}:clock", "simulator clock does not start at the time passed to the constructor", got=float(sim.time), want=t_expected))
    second = None
    if isinstance(steps, str):  # "2:single" / "2:zero": the second step starts from a re-loaded state
        steps, second = int(steps.split(":")[0]), steps.split(":")[1]
    # references to the public arrays are taken ONCE, as IO registration and the flow-body interactors do
    # (they keep views of velocity_field / eul_grid_forcing_field): the simulator has to keep working on
    # these very arrays, not on re-bound copies
    prim = simcfg.primary(sim)
    vel_h = sim.velocity_field
    forc_h = sim.eul_grid_forcing_field if (simcfg.is_ns(kind) and c["forcing"]) else None
    for step in range(steps):
        if step == 1 and second is not None:
            # state in which field components are IDENTICALLY zero, on a simulator whose scratch and
            # stream-function arrays still hold the previous step's data
            if second == "zero":
                prim[...] = 0
            elif prim.ndim == d:
                prim[...] = 0
                prim[tuple(n // 2 for n in c["shape"])] = 1.25
            else:
                keep = prim[0].copy()
                prim[...] = 0
                prim[0] = keep
            if second == "zero" or prim.ndim != d:
                vel_h[...] = 0 if second == "zero" else vel_h
        w0 = prim.astype(np.float64).copy()
        u0 = vel_h.astype(np.float64).copy()
        f0 = forc_h.astype(np.float64).copy() if forc_h is not None else None
        fs = simcfg.free_stream(c, seed + step) if c["stream"] else None  # c["stream_kind"] selects the alphabet member
        # the TYPE of the objects handed over is part of the input: Python float / list, numpy double, numpy scalar and
        # array of the working precision; what counts is the value they carry
        dt_obj, fs_obj = dt, fs
        if arg_types == "numpy64":
            dt_obj, fs_obj = np.float64(dt), (None if fs is None else np.asarray(fs, dtype=np.float64))
        elif arg_types == "real_t":
            dt_obj, fs_obj = real_t(dt), (None if fs is None else np.asarray(fs, dtype=real_t))
        elif arg_types == "sequence":
            dt_obj, fs_obj = float(dt), (None if fs is None else [float(v) for v in fs])
        dt = float(dt_obj)
        if fs is not None:
            fs = np.asarray(fs_obj, dtype=np.float64)
        kw = {"free_stream_velocity": fs_obj} if fs is not None else {}
        sim.time_step(dt=dt_obj, **kw)
        t_expected += dt
        if float(sim.time) != t_expected:
            fails.append(Fail(f"{tag}:clock", "simulator time did not advance by exactly dt", got=float(sim.time), want=t_expected))
        ctx = dict(cfg=c, state=state, velocity=velocity, forcing=forcing, step=step, arg_types=arg_types)
        if simcfg.is_ns(kind):
            ref = flowstep.ns_step(kind, w0, u0, f0, dt, nu, rho, dx, c["width"], fs, filt=c["filter"], poisson=c["poisson"])
            got_w = prim.astype(np.float64)
            tol_w = 64 * eps * (ref["scale_w"] + 1e-300)
            dev = np.abs(got_w - ref["vorticity"])
            if not np.all(np.isfinite(got_w)) or np.any(dev > tol_w):
                idx = np.unravel_index(np.nanargmax(dev / tol_w), dev.shape)
                fails.append(Fail(f"{tag}:vorticity", "vorticity after one step differs from the documented operator sequence (reference implementation)",
                                  cell=[int(i) for i in idx], got=float(got_w[idx]), want=float(ref["vorticity"][idx]), tol=float(tol_w[idx]), **ctx))
            got_u = vel_h.astype(np.float64)
            tol_u = 256 * eps * (ref["scale_u"] + 1e-300)
            devu = np.abs(got_u - ref["velocity"])
            if not np.all(np.isfinite(got_u)) or devu.max() > tol_u:
                idx = np.unravel_index(np.nanargmax(devu), devu.shape)
                fails.append(Fail(f"{tag}:velocity", "velocity after one step differs from curl of the unbounded Poisson solution plus free stream (reference implementation)",
                                  cell=[int(i) for i in idx], got=float(got_u[idx]), want=float(ref["velocity"][idx]), tol=float(tol_u), **ctx))
            if c["forcing"]:
                if np.any(forc_h != 0) or np.any(sim.eul_grid_forcing_field != 0):
                    fails.append(Fail(f"{tag}:forcing-not-reset", "body-forcing field (the array handed out before the step) is not identically zero on return", nonzero=int(np.count_nonzero(forc_h)), **ctx))
                # next step of a 2-step history gets a fresh forcing, deposited through the retained reference
                forc_h[...] = simcfg.forcing_pattern(forcing, d, c["shape"], max(1, c["width"]), seed + 1).astype(real_t)
        else:
            ref = flowstep.passive_step(w0, u0, dt, nu, dx)
            got = prim.astype(np.float64)
            tol = 64 * eps * (ref["scale"] + 1e-300)
            dev = np.abs(got - ref["primary"])
            if not np.all(np.isfinite(got)) or np.any(dev > tol):
                idx = np.unravel_index(np.nanargmax(dev / tol), dev.shape)
                fails.append(Fail(f"{tag}:primary", "transported field after one step differs from ENO3 advection + explicit diffusion (reference implementation)",
                                  cell=[int(i) for i in idx], got=float(got[idx]), want=float(ref["primary"][idx]), tol=float(tol[idx]), **ctx))
            if not np.array_equal(vel_h.astype(np.float64), u0) or not np.array_equal(sim.velocity_field.astype(np.float64), u0):
                fails.append(Fail(f"{tag}:velocity-modified", "passive transport step modified the velocity field", **ctx))
    changed = bool(np.any(simcfg.primary(sim) != 0))
    return CaseResult(fails=fails, states=steps, transitions=steps, traces=steps, outcome=f"{kind}:{c['dtype']}:{state}:{changed}:{backend}:{second}", extra={"shape": c["shape"], "backend": backend})


def case_control(dummy):
    """Negative control: the oracle must reject a reference with one perturbed coefficient."""
    c = simcfg.normalise(dict(kind="ns2d", shape=(12, 14), forcing=True, stream=True))
    sim = simcfg.make_sim(c)
    simcfg.load_state(sim, c, "generic", "generic", "generic", margin=1)
    w0, u0, f0 = sim.vorticity_field.copy(), sim.velocity_field.copy(), sim.eul_grid_forcing_field.copy()
    fs = simcfg.free_stream(c)
    dt, nu, rho = c["params"]
    sim.time_step(dt=dt, free_stream_velocity=fs)
    good = flowstep.ns_step("ns2d", w0, u0, f0, dt, nu, rho, float(sim.dx), 2, fs)
    bad = flowstep.ns_step("ns2d", w0, u0, f0, dt, nu * 1.001, rho, float(sim.dx), 2, fs)
    eps = np.finfo(np.float64).eps
    # the control concerns the ORACLE only (it must separate two references that differ by 0.1 % in nu),
    # not the tree under check: a broken tree must produce a verdict, not a harness error
    sep = np.abs(good["vorticity"] - bad["vorticity"]) > 64 * eps * (good["scale_w"] + bad["scale_w"])
    if not np.any(sep):
        from harness.interp import HarnessError

        raise HarnessError("C01 negative control failed: tolerance cannot separate references that differ by 0.1% in viscosity")
    return CaseResult(states=1, transitions=1, traces=1, outcome="control")


def case_sequence(cases):
    """Construction history: many simulator configurations built and stepped one after the other in
    ONE process; every step is still compared with the reference (module-level state must not leak)."""
    fails = []
    states = 0
    for k, c in enumerate(cases):
        res = case_step(**c)
        states += res["states"]
        for fl in res["fails"]:
            fl["key"] = fl["key"] + ":in-sequence"
            fl["detail"]["position_in_sequence"] = k
            fails.append(fl)
    return CaseResult(fails=fails, states=states, transitions=states, traces=states, outcome=f"sequence:{len(cases)}:{cases[0]['cfg']['kind']}")


CASES = {"step": case_step, "control": case_control, "sequence": case_sequence}


def lattice_cases(tier, seed):
    out = []
    dev = {"quick": 2, "dev1": 1}.get(tier, 3)
    pat = {"state": simcfg.STATE_PATTERNS, "velocity": simcfg.VELOCITY_PATTERNS}
    ns_common = {"dtype": ["float64", "float32"], "forcing": [True, False], "stream": [True, False], "stream_kind": simcfg.STREAM_KINDS, "width": [2, 0, 1, 3, 4], "params": PARAMS, "x_range": X_RANGES, "time0": [0.0, 3.7], "arg_types": ARG_TYPES,
                 "steps": [1, 2, "2:single", "2:zero"], **pat, "forcing_pat": simcfg.FORCING_PATTERNS}
    kinds = {
        "ns2d": {**ns_common, "shape": SHAPES[2]},
        "ns3d": {**ns_common, "shape": SHAPES[3], "filter": FILTERS + ["default"], "poisson": ["greens", "fastdiag"]},
        "pt2d": {"dtype": ["float64", "float32"], "params": PARAMS, "x_range": X_RANGES, "time0": [0.0, 3.7], "arg_types": ARG_TYPES[:3], "steps": [1, 2, "2:single", "2:zero"], **pat, "shape": SHAPES[2]},
        "pt3ds": {"dtype": ["float64", "float32"], "params": PARAMS, "x_range": X_RANGES, "time0": [0.0, 3.7], "arg_types": ARG_TYPES[:3], "steps": [1, 2, "2:single", "2:zero"], **pat, "shape": SHAPES[3]},
        "pt3dv": {"dtype": ["float64", "float32"], "params": PARAMS, "x_range": X_RANGES, "time0": [0.0, 3.7], "arg_types": ARG_TYPES[:3], "steps": [1, 2, "2:single", "2:zero"], **pat, "shape": SHAPES[3]},
    }
    for kind, axes in kinds.items():
        for pt in explore.lattice(axes, dev):
            cfg = {"kind": kind, "dtype": pt["dtype"], "params": pt["params"], "shape": pt["shape"]}
            for k in ("forcing", "stream", "stream_kind", "width", "filter", "poisson", "x_range", "time0"):
                if k in pt:
                    cfg[k] = pt[k]
            out.append(dict(cfg=cfg, state=pt["state"], velocity=pt["velocity"], forcing=pt.get("forcing_pat", "none"), steps=pt["steps"], seed=seed, arg_types=pt.get("arg_types", "python")))
    # forcing + stream + filter together (the interesting 3-way interaction) for every filter and solver
    for filt in (FILTERS[1:] if tier != "dev1" else []):
        for ps_ in ("greens", "fastdiag"):
            for dt_ in ("float64", "float32"):
                out.append(dict(cfg={"kind": "ns3d", "dtype": dt_, "forcing": True, "stream": True, "filter": filt, "poisson": ps_, "shape": SHAPES[3][1], "width": 3}, state="generic", velocity="generic", forcing="generic", steps=2, seed=seed))
    # the combination that exposed the clock defect fixed in 48a4f0d (three deviations: precision, initial time, numpy-typed
    # dt), kept in every tier
    if tier != "dev1":
        for kind in kinds:
            cfg = {"kind": kind, "dtype": "float32", "params": PARAMS[0], "shape": kinds[kind]["shape"][0], "time0": 3.7}
            out.append(dict(cfg=cfg, state="generic", velocity="generic", forcing="none", steps=2, seed=seed, arg_types="real_t"))
    # grids that are LONG along one axis (each axis in turn): blocked / slab-wise sweeps and chunked loops only show
    # beyond their block size
    if tier != "dev1":
        for kind, shapes in (("ns2d", [(70, 7), (7, 70)]), ("pt2d", [(70, 7), (7, 70)]), ("ns3d", [(36, 6, 7), (6, 36, 7), (6, 7, 36)]), ("pt3dv", [(36, 6, 7), (6, 36, 7), (6, 7, 36)])):
            for sh in shapes:
                for dt_ in ("float64", "float32"):
                    cfg = {"kind": kind, "dtype": dt_, "shape": sh, "params": PARAMS[0]}
                    if kind.startswith("ns"):
                        cfg.update(forcing=True, stream=True, width=2, poisson="fastdiag" if kind == "ns3d" else "greens")
                    out.append(dict(cfg=cfg, state="generic", velocity="generic", forcing="generic", steps=2, seed=seed))
    return out


def lattice_cases_dev1(seed):
    import copy

    out = []
    for c in lattice_cases("dev1", seed):
        out.append(copy.deepcopy(c))
    return out


def run(r) -> None:
    r.bind_model()
    r.run_cases("negative-control", "control", [dict(dummy=0)], parallel=False)
    cases = lattice_cases(r.tier, r.seed)
    cases.sort(key=lambda c: c["cfg"]["kind"] not in ("ns3d", "pt3dv"))
    r.run_cases("step-lattice", "step", cases, chunksize=2)
    # explicit construction histories: the deviation <= 1 configurations of each simulator class in one
    # process, forwards and backwards
    seqs = []
    dev1 = lattice_cases("dev1", r.seed)
    for kind in ("ns2d", "ns3d", "pt3dv"):
        lst = [c for c in dev1 if c["cfg"]["kind"] == kind]
        seqs += [dict(cases=lst), dict(cases=list(reversed(lst)))]
    r.run_cases("configuration-sequences", "sequence", seqs)
    if r.tier == "thorough":
        # end-to-end replay of the deviation <= 1 traces on the REAL generated code (pystencils -> g++)
        jit_cases = [dict(c, backend="jit") for c in lattice_cases_dev1(r.seed)]
        r.run_cases("step-lattice-jit", "step", jit_cases, chunksize=6)
        r.extra["jit_traces"] = len(jit_cases)
    r.bounds = {"deviation": 2 if r.tier == "quick" else 3, "cases": len(cases), "shapes": SHAPES, "long_axis_shapes": "70 x 7, 7 x 70; 36 x 6 x 7 with the long axis in every position", "params": PARAMS, "filters": FILTERS + ["filter_vorticity=True without a settings dictionary"], "x_ranges": X_RANGES, "initial_time": [0.0, 3.7], "argument_types": ARG_TYPES,
                "widths": [0, 1, 2, 3, 4], "state_patterns": simcfg.STATE_PATTERNS, "velocity_patterns": simcfg.VELOCITY_PATTERNS, "forcing_patterns": simcfg.FORCING_PATTERNS, "steps": [1, 2, "2 with the second step re-loaded with a single non-zero component", "2 with the second step from the all-zero field"]}
    r.extra["rule"] = "one state per executed time step of each (configuration, pattern, history length) tuple of the deviation-bounded lattice; every step compared cell by cell with the independent reference"
    r.assumptions = ["small-scope: field values from finite pattern alphabets on grids of ~12 cells a side", "kernels on the interpreter back end, bound to the generated code by conformance replay",
                     "tolerance 64 eps x running sum of absolute terms per cell (vorticity), 256 eps x (|G| |w| / dx + |U_inf|) (velocity)"]
