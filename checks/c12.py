"""C12 - discrete vector-calculus identities hold exactly.

basis/exact, through the real wrapper closures, on Fraction arrays:
  * div(curl(e)) == 0 for every unit impulse (component x cell) of a non-cubic 3-D grid, at every
    cell whose stencils avoid the boundary ring; with and without ghost-zone reset
  * 2-D: velocity = curl_outplane(psi) is discretely divergence free and
    curl_inplane(curl_outplane(psi)) is the wide (2h) five-point negative Laplacian of psi
  * update_from_forcing(w, f, p) - w == p * curl(f) using the library's own curl (2-D and 3-D)
  * update_from_penalised(w, up, u, p) == update_from_forcing(w, up - u, p)
  * 3-D simulator: get_vorticity_divergence_l2_norm() stays at rounding level after a forcing
    (curl-type) update of interior-supported data
"""

from __future__ import annotations

import itertools
from fractions import Fraction

import numpy as np

from harness.core import CaseResult, Fail
from refmodel.poly import zeros

R = np.float64


def _imp(shape, idx, val=1):
    a = zeros(shape)
    a[idx] = Fraction(val)
    return a


def _dense(shape, k):
    n = int(np.prod(shape))
    a = np.empty(n, dtype=object)
    a[:] = [Fraction(((5 * i + 7 * k) % 13) - 6, 3) + Fraction(i % 4, 5) for i in range(n)]
    return a.reshape(shape)


def case_divcurl(shape, reset, comp):
    import sopht.numeric.eulerian_grid_ops as spne

    shape = tuple(shape)
    curl = spne.gen_curl_pyst_kernel_3d(real_t=R, reset_ghost_zone=reset)
    div = spne.gen_divergence_pyst_kernel_3d(real_t=R, reset_ghost_zone=reset)
    fails = []
    states = trans = 0
    inner = tuple(slice(2, n - 2) for n in shape)
    nonzero_curl = 0
    for c in (comp,):
        for idx in itertools.product(*[range(n) for n in shape]):
            f = np.stack([_imp(shape, idx) if q == c else zeros(shape) for q in range(3)])
            cu = np.stack([zeros(shape, Fraction(977, 3))] * 3)
            curl(curl=cu, field=f, prefactor=Fraction(1, 2))
            if reset is False:
                # ring of cu is untouched garbage; the identity is only claimed away from the ring
                pass
            d = zeros(shape, Fraction(55, 7))
            div(divergence=d, field=cu, inv_dx=Fraction(1))
            trans += 2
            states += 1
            nonzero_curl += int(np.any(cu[(slice(None),) + tuple(slice(1, n - 1) for n in shape)] != 0))
            bad = d[inner] != 0
            if np.any(bad):
                cell = tuple(int(i) + 2 for i in np.argwhere(bad)[0])
                fails.append(Fail("divcurl", "discrete divergence of the discrete curl is not zero", impulse_component=c, impulse_cell=idx, at=cell, value=d[cell], reset=reset))
    if nonzero_curl == 0 and not fails:
        from harness.interp import HarnessError

        raise HarnessError("C12 divcurl vacuous: curl of every impulse is zero")
    return CaseResult(fails=fails, states=states, transitions=trans, traces=trans, outcome=f"divcurl:{shape}:{reset}:{comp}:{nonzero_curl}", extra={"impulses_with_nonzero_curl": nonzero_curl})


def case_2d(shape):
    import sopht.numeric.eulerian_grid_ops as spne

    shape = tuple(shape)
    fails = []
    states = trans = 0
    p = Fraction(3, 7)
    inner2 = tuple(slice(2, n - 2) for n in shape)
    seen_nonzero = 0
    for reset in (True, False):
        oc = spne.gen_outplane_field_curl_pyst_kernel_2d(real_t=R, reset_ghost_zone=reset)
        ic = spne.gen_inplane_field_curl_pyst_kernel_2d(real_t=R)
        for idx in itertools.product(*[range(n) for n in shape]):
            psi = _imp(shape, idx)
            vel = np.stack([zeros(shape, Fraction(11, 3))] * 2)
            oc(curl=vel, field=psi, prefactor=p)
            # discrete divergence with the same centred difference (x = last axis, y = first axis)
            ux, uy = vel[0], vel[1]
            div = (ux[2:-2, 3:-1] - ux[2:-2, 1:-3]) + (uy[3:-1, 2:-2] - uy[1:-3, 2:-2])
            if np.any(div != 0):
                fails.append(Fail("2d:divergence-free", "curl of a stream function is not discretely divergence free", impulse=idx, reset=reset))
            w = zeros(shape, Fraction(5, 9))
            ic(curl=w, field=vel, prefactor=p)
            lap = zeros(shape)
            lap[2:-2, 2:-2] = -(psi[2:-2, 4:] + psi[2:-2, :-4] + psi[4:, 2:-2] + psi[:-4, 2:-2] - 4 * psi[2:-2, 2:-2]) * p * p
            if np.any(w[inner2] != lap[inner2]):
                cell = tuple(int(i) + 2 for i in np.argwhere(w[inner2] != lap[inner2])[0])
                fails.append(Fail("2d:curl-curl", "curl_inplane(curl_outplane(psi)) is not the wide five-point negative Laplacian", impulse=idx, at=cell, got=w[cell], want=lap[cell], reset=reset))
            seen_nonzero += int(np.any(lap != 0))
            states += 1
            trans += 2
    if seen_nonzero == 0 and not fails:
        from harness.interp import HarnessError

        raise HarnessError("C12 2d vacuous")
    return CaseResult(fails=fails, states=states, transitions=trans, traces=trans, outcome=f"2d:{shape}:{seen_nonzero}")


def case_update(dim, shape):
    import sopht.numeric.eulerian_grid_ops as spne

    shape = tuple(shape)
    s = f"_{dim}d"
    fails = []
    states = trans = 0
    # generation history: every generator is called three times in this process and the LAST kernel is the one under
    # test (a generator must not remember how often it was called)
    for _ in range(3):
        upd = getattr(spne, f"gen_update_vorticity_from_velocity_forcing_pyst_kernel{s}")(real_t=R)
        pen = getattr(spne, f"gen_update_vorticity_from_penalised_velocity_pyst_kernel{s}")(real_t=R)
        if dim == 2:
            curl = spne.gen_inplane_field_curl_pyst_kernel_2d(real_t=R)
        else:
            curl = spne.gen_curl_pyst_kernel_3d(real_t=R, reset_ghost_zone=False)
    p = Fraction(5, 11)
    inner = tuple(slice(1, n - 1) for n in shape)
    wshape = shape if dim == 2 else (3, *shape)
    nz = 0
    cells = list(itertools.product(*[range(n) for n in shape]))
    for c in range(dim):
        for idx in cells:
            f = np.stack([_imp(shape, idx, 2) if q == c else zeros(shape) for q in range(dim)])
            w0 = _dense(wshape, 1)
            w = w0.copy()
            upd(vorticity_field=w, velocity_forcing_field=f, prefactor=p)
            cu = zeros(wshape)
            curl(curl=cu, field=f, prefactor=p)
            sl = inner if dim == 2 else (slice(None), *inner)
            lhs = (w - w0)[sl]
            if np.any(lhs != cu[sl]):
                fails.append(Fail(f"update{s}:forcing-vs-curl", "update_from_forcing(w, f, p) - w != p * curl(f) with the library's own curl", component=c, impulse=idx))
            nz += int(np.any(cu[sl] != 0))
            # ring must be untouched
            ring = np.ones(shape, dtype=bool)
            ring[inner] = False
            rsl = ring if dim == 2 else (slice(None), ring)
            if np.any(w[rsl] != w0[rsl]):
                fails.append(Fail(f"update{s}:ring", "vorticity update wrote into the boundary ring", component=c, impulse=idx))
            # penalised variant == forcing variant on the difference
            u = _dense((dim, *shape), 2)
            up = u + f
            w2 = w0.copy()
            pen(vorticity_field=w2, penalised_velocity_field=up, velocity_field=u, prefactor=p)
            if np.any(w2 != w):
                fails.append(Fail(f"update{s}:penalised-vs-forcing", "update_from_penalised(w, up, u, p) != update_from_forcing(w, up - u, p)", component=c, impulse=idx))
            if (c, idx) == (0, cells[len(cells) // 2]) or (c, idx) == (dim - 1, cells[len(cells) // 3]):
                # the same two identities through POSITIONAL calls in the documented order
                # (vorticity, [penalised velocity,] velocity / forcing, prefactor)
                w3, w4 = w0.copy(), w0.copy()
                upd(w3, f, p)
                pen(w4, up, u, p)
                if np.any(w3 != w) or np.any(w4 != w):
                    fails.append(Fail(f"update{s}:positional-call", "the update kernels called positionally (vorticity, [penalised velocity,] velocity, prefactor) differ from the keyword calls", component=c, impulse=idx,
                                      forcing_variant_differs=bool(np.any(w3 != w)), penalised_variant_differs=bool(np.any(w4 != w))))
                trans += 2
            states += 1
            trans += 3
    if nz == 0 and not fails:
        from harness.interp import HarnessError

        raise HarnessError("C12 update vacuous")
    return CaseResult(fails=fails, states=states, transitions=trans, traces=trans, outcome=f"update:{dim}:{shape}:{nz}")


def case_update_generated(dim, dtype):
    """The penalised-update identity on the GENERATED CODE (pystencils -> g++) with every array argument in a
    different memory layout (contiguous / window of a padded array / every second cell of a larger array):
    update_from_penalised(w, up, u, p) == update_from_forcing(w, up - u, p) up to rounding."""
    import sopht.numeric.eulerian_grid_ops as spne
    from harness import shim

    real_t = np.dtype(dtype).type
    eps = float(np.finfo(real_t).eps)
    shape = (9, 11) if dim == 2 else (7, 9, 11)
    s = f"_{dim}d"
    fails = []
    shim.set_backend("jit")
    try:
        upd = getattr(spne, f"gen_update_vorticity_from_velocity_forcing_pyst_kernel{s}")(real_t=real_t)
        pen = getattr(spne, f"gen_update_vorticity_from_penalised_velocity_pyst_kernel{s}")(real_t=real_t)

        def gen(shp, k):
            i = np.arange(int(np.prod(shp)), dtype=np.float64)
            return (np.sin(0.7 * i + k) + 0.3 * np.cos(2.3 * i + 0.5 * k)).reshape(shp)

        def window(a):
            big = np.full(tuple(n + 3 for n in a.shape), -7.0, dtype=real_t)
            v = big[tuple(slice(1, 1 + n) for n in a.shape)]
            v[...] = a
            return v

        def strided(a):
            big = np.full(tuple(2 * n for n in a.shape), 5.0, dtype=real_t)
            v = big[tuple(slice(None, None, 2) for _ in a.shape)]
            v[...] = a
            return v

        wshape = shape if dim == 2 else (3, *shape)
        states = 0
        for rot in range(3):
            layouts = [np.ascontiguousarray, window, strided]
            lw, lp, lu = layouts[rot % 3], layouts[(rot + 1) % 3], layouts[(rot + 2) % 3]
            w0 = gen(wshape, 1).astype(real_t)
            u = gen((dim, *shape), 2).astype(real_t)
            up = gen((dim, *shape), 3).astype(real_t)
            w_pen = lw(w0.copy())
            pen(vorticity_field=w_pen, penalised_velocity_field=lp(up), velocity_field=lu(u), prefactor=real_t(0.375))
            w_for = w0.copy()
            upd(vorticity_field=w_for, velocity_forcing_field=(up.astype(np.float64) - u.astype(np.float64)).astype(real_t), prefactor=real_t(0.375))
            states += 1
            scale = 1.0 + float(np.abs(up).max() + np.abs(u).max()) * 0.375 * 4
            if not np.all(np.abs(w_pen.astype(np.float64) - w_for.astype(np.float64)) <= 64 * eps * scale):
                fails.append(Fail(f"update{s}:penalised-vs-forcing:generated-code", "generated kernels with arguments of different memory layouts: update_from_penalised(w, up, u, p) != update_from_forcing(w, up - u, p)",
                                  layouts=[f.__name__ for f in (lw, lp, lu)], dtype=dtype))
    finally:
        shim.set_backend("interp")
    return CaseResult(fails=fails, states=states, transitions=2 * states, traces=states, outcome=f"update-generated:{dim}:{dtype}")


def case_monitor(shape, dtype, poisson, pattern, transport=False):
    """3-D simulator's own divergence monitor after a curl-type (forcing) update."""
    import sopht.simulator as sps

    dtype = np.dtype(dtype).type
    shape = tuple(shape)
    sim = sps.UnboundedNavierStokesFlowSimulator3D(
        grid_size=shape, x_range=1.0, kinematic_viscosity=0.02, real_t=dtype, with_forcing=True,
        poisson_solver_type=poisson, num_threads=False, **({"penalty_zone_width": 0} if transport else {}),
    )
    fails = []
    n = int(np.prod(shape))
    i = np.arange(3 * n, dtype=np.float64)
    vals = (np.sin(0.9 * i + pattern) + 0.3 * ((i * 7) % 5 - 2)).reshape((3, *shape))
    m = 5
    inner = (slice(None), *[slice(m, s - m) for s in shape])
    sim.eul_grid_forcing_field[inner] = vals[inner].astype(dtype)
    if transport:
        # rotational-form transport too: start from a discretely divergence-free vorticity (central-difference curl of a
        # compactly supported vector potential) in a generic velocity field; curl(u x omega), the Laplacian and the
        # forcing curl all keep div_h(omega) = 0
        from refmodel import flowstep

        pot = np.zeros((3, *shape))
        m2 = 6
        inner2 = (slice(None), *[slice(m2, s_ - m2) for s_ in shape])
        pot[inner2] = np.cos(0.7 * i + 0.4 * pattern).reshape((3, *shape))[inner2]
        sim.vorticity_field[...] = (flowstep.curl3(pot) / (2 * float(sim.dx))).astype(dtype)
        sim.velocity_field[...] = (0.6 * np.sin(1.3 * i + 0.2) + 0.1).reshape((3, *shape)).astype(dtype)
        start = sim.get_vorticity_divergence_l2_norm()
        scale0 = float(np.linalg.norm(sim.vorticity_field)) * float(sim.dx) ** 0.5
        if not start <= 200 * np.finfo(dtype).eps * max(scale0, 1e-30):
            from harness.interp import HarnessError

            raise HarnessError(f"C12 monitor: initial vorticity is not discretely divergence-free ({start})")
    before = 0.0 if transport else sim.get_vorticity_divergence_l2_norm()
    sim.time_step(dt=dtype(0.01))
    after = sim.get_vorticity_divergence_l2_norm()
    scale = float(np.linalg.norm(sim.vorticity_field)) / float(sim.dx) * float(sim.dx) ** 1.5
    tol = 200 * np.finfo(dtype).eps * max(scale, 1e-30)
    if not (before == 0.0):
        fails.append(Fail("monitor:initial", "divergence monitor non-zero on the zero field", value=float(before)))
    if not np.isfinite(after) or after > tol:
        fails.append(Fail("monitor:divergence-created", "a curl-type vorticity update created divergence of vorticity (simulator's own monitor)", after=float(after), tol=tol, scale=scale, poisson=poisson, shape=shape, with_transport=transport))
    if not np.any(sim.vorticity_field != 0):
        from harness.interp import HarnessError

        raise HarnessError("C12 monitor vacuous")
    return CaseResult(fails=fails, states=1, transitions=2, traces=2, outcome=f"monitor:{shape}:{poisson}:{transport}:{after > 0}", extra={"divergence_norm": float(after), "tol": tol})


CASES = {"update_generated": case_update_generated, "divcurl": case_divcurl, "2d": case_2d, "update": case_update, "monitor": case_monitor}


def run(r) -> None:
    quick = r.tier == "quick"
    r.bind_model(only=[
        "gen_curl_pyst_kernel_3d", "gen_divergence_pyst_kernel_3d", "gen_outplane_field_curl_pyst_kernel_2d", "gen_inplane_field_curl_pyst_kernel_2d",
        "gen_update_vorticity_from_velocity_forcing_pyst_kernel_2d", "gen_update_vorticity_from_velocity_forcing_pyst_kernel_3d",
        "gen_update_vorticity_from_penalised_velocity_pyst_kernel_2d", "gen_update_vorticity_from_penalised_velocity_pyst_kernel_3d",
    ])
    g3 = [(6, 7, 8)] if quick else [(6, 7, 8), (9, 10, 11), (8, 6, 7)]
    r.run_cases("div-curl", "divcurl", [dict(shape=s, reset=x, comp=c) for s in g3 for x in (True, False) for c in range(3)])
    g2 = [(7, 9)] if quick else [(7, 9), (10, 8), (6, 6)]
    r.run_cases("2d-identities", "2d", [dict(shape=s) for s in g2])
    r.run_cases("update-vs-curl", "update", [dict(dim=2, shape=s) for s in g2] + [dict(dim=3, shape=s) for s in ([(5, 6, 7)] if quick else [(5, 6, 7), (7, 5, 6)])])
    r.run_cases("update-vs-curl-generated-code", "update_generated", [dict(dim=d, dtype=dt) for d in (2, 3) for dt in ("float64", "float32")])
    mon = [dict(shape=(14, 15, 16), dtype=dt, poisson=ps_, pattern=p + r.seed) for dt in ("float64", "float32")
           for ps_ in ("greens_function_convolution", "fast_diagonalisation") for p in ((0,) if quick else (0, 1, 2))]
    # with rotational-form transport of a divergence-free vorticity, on grids that are LONG along one axis (every axis)
    mon += [dict(shape=sh, dtype=dt, poisson="fast_diagonalisation", pattern=r.seed, transport=True) for dt in ("float64", "float32")
            for sh in ((14, 15, 16), (40, 13, 14), (13, 40, 14), (13, 14, 40)) + (() if quick else ((70, 13, 13),))]
    r.run_cases("simulator-monitor", "monitor", mon)
    r.bounds = {"grids_3d": g3, "grids_2d": g2, "impulses": "every component x every cell", "arithmetic": "exact (Fractions); simulator monitor in float"}
    r.extra["rule"] = "one state per unit impulse (component x cell); identity evaluated at every cell whose stencils avoid the ring"
    r.assumptions = ["interpreter exact mode on captured kernels, bound to generated code by conformance replay"]
