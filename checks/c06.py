"""C06 - interpolation kernels are a partition of unity with the documented moments.

lattice: per-axis sub-cell offsets {0, +-1 ulp, +-4 ulp (cell centre), 1/4, 1/2 -+ 1 ulp, 1/2 (face),
3/4, 1 - 1 ulp} crossed over ALL axes x base cells x kernel x dtype x dx x grid shape, fed to the real
numba closures in fixed-size batches.  Oracle: exact rational distances from the true (float) marker
position to every cell centre, reference weights in longdouble.
"""

from __future__ import annotations

import itertools

import numpy as np

from harness import explore, lagcomm
from harness.core import CaseResult, Fail
from refmodel import delta

LD = np.longdouble


def offsets_alphabet(dtype):
    """Sub-cell offsets in units of dx measured from a cell centre; ulp steps are applied to the
    final position."""
    return [("c", 0.0, 0), ("c", 0.0, 1), ("c", 0.0, -1), ("c", 0.0, 4), ("c", 0.0, -4), ("q", 0.25, 0),
            ("f", 0.5, -1), ("f", 0.5, 0), ("f", 0.5, 1), ("t", 0.75, 0), ("n", 1.0, -1)]


def _position(dtype, dx, cell, off, origin=None):
    _, frac, ulps = off
    x = dtype((cell + frac) * dx + (dx / 2 if origin is None else origin))
    for _ in range(abs(ulps)):
        x = np.nextafter(x, dtype(np.inf if ulps > 0 else -np.inf))
    return x


def case_lattice(dim, kernel, dtype, dx, base_cells, n_markers=None, shift="default", edge=None):
    real_t = np.dtype(dtype).type
    shape = lagcomm.SHAPES[dim]
    # construction history: a communicator of the OTHER kernel type and another spacing is built first
    # in the same process (nothing of it may leak into the one under test)
    other_dx = lagcomm.DXS[(lagcomm.DXS.index(dx) + 1) % len(lagcomm.DXS)] if dx in lagcomm.DXS else lagcomm.DXS[0]
    lagcomm.Comm(dim, "peskin" if kernel == "cosine" else "cosine", real_t, other_dx)
    comm = lagcomm.Comm(dim, kernel, real_t, dx, n=n_markers or lagcomm.N_BATCH, shift=lagcomm.shift_value(shift, dx))
    origin = comm.shift  # coordinate of the first cell centre along every axis
    n = comm.n
    eps = float(np.finfo(real_t).eps)
    offs = offsets_alphabet(real_t)
    if edge == "low":
        # markers EXACTLY two cells inside the low domain faces and up to half a cell further in (x in [2 dx, 2.5 dx)):
        # base cell 1 with the upper half of the offsets; their nearest-cell index is 1, the lowest admissible one
        offs = [o for o in offs if o[1] >= 0.5 and not (o[1] == 0.5 and o[2] < 0)]
    fails = []
    # axis k of a marker position: 0 = x (last array axis)
    ncell = [shape[dim - 1 - k] for k in range(dim)]
    per_axis = []
    for k in range(dim):
        per_axis.append([(c, o) for c in base_cells[k] for o in offs])
    combos = list(itertools.product(*per_axis))
    states = 0
    worst = {"sum": 0.0, "w": 0.0, "moment": 0.0, "lost": 0.0, "neg": 0.0}
    slipped = 0
    # the simulator's own coordinate field for the affine test
    from harness.registry import position_field

    pos_field = position_field(shape, dx, real_t, [origin] * dim)
    const_field = np.full((dim, *shape), 2.5, dtype=real_t)
    for b in range(0, len(combos), n):
        batch = combos[b : b + n]
        nb = len(batch)
        batch = batch + [batch[-1]] * (n - nb)
        P = np.empty((dim, n), dtype=real_t)
        for m, combo in enumerate(batch):
            for k in range(dim):
                P[k, m] = _position(real_t, dx, combo[k][0], combo[k][1], origin)
        P0 = P.copy()
        near, W = comm.locate(P)
        if not np.array_equal(P, P0):
            fails.append(Fail("positions-modified", "communicator modified the marker positions"))
        lag_c = np.zeros((dim, n), dtype=real_t)
        comm.interpolate(lag_c, const_field)
        lag_p = np.zeros((dim, n), dtype=real_t)
        comm.interpolate(lag_p, pos_field)
        for m in range(nb):
            states += 1
            ctx = dict(dim=dim, kernel=kernel, dtype=dtype, dx=dx, grid_origin=shift, position=[float(v) for v in P[:, m]], cells=[c[0] for c in batch[m]], offsets=[c[1] for c in batch[m]])
            ref1d = [delta.weights_1d(kernel, float(P[k, m]), dx, ncell[k], origin) for k in range(dim)]  # per marker axis k
            win = comm.window(m)  # per array axis a (z..x)
            ok_window = all(w[0] >= 0 and w[-1] < shape[a] for a, w in enumerate(win))
            if not ok_window:
                fails.append(Fail(f"{kernel}:window-out-of-grid", "support window leaves the grid for an admissible marker", **ctx))
                continue
            true_floor = [int(np.floor(float((delta.Fraction(float(P[k, m])) - delta.Fraction(float(origin))) / delta.Fraction(float(dx))))) for k in range(dim)]
            if any(int(near[k, m]) != true_floor[k] for k in range(dim)):
                slipped += 1
            # reference on the window (array axis a <-> marker axis dim-1-a)
            refw = np.ones((4,) * dim, dtype=LD)
            lost = LD(0)
            idx_tol = 0.0
            for a in range(dim):
                k = dim - 1 - a
                r = ref1d[k][win[a]]
                sh = [1] * dim
                sh[a] = 4
                refw = refw * r.reshape(sh)
                outside = np.ones(ncell[k], dtype=bool)
                outside[win[a]] = False
                lost = max(lost, float(ref1d[k][outside].sum() * LD(dx)))
                idx_tol = max(idx_tol, float(abs(P[k, m]) / dx))
            wm = W[..., m].astype(LD)
            if not (np.all(np.isfinite(wm.astype(np.float64))) and np.all(np.isfinite(lag_c[:, m])) and np.all(np.isfinite(lag_p[:, m]))):
                fails.append(Fail(f"{kernel}:nonfinite", "non-finite interpolation weight or interpolated value", **ctx))
                continue
            scale = float((1 / LD(dx)) ** dim)
            tol = 4 * eps * (4 + idx_tol)
            dev = float(np.abs(wm - refw).max()) / scale
            worst["w"] = max(worst["w"], dev / tol)
            if dev > tol:
                fails.append(Fail(f"{kernel}:weights", "interpolation weights differ from the delta function evaluated at the true distances", dev=dev, tol=tol, **ctx))
            neg = float(-wm.min()) / scale
            worst["neg"] = max(worst["neg"], neg / tol)
            if neg > tol:
                fails.append(Fail(f"{kernel}:negative-weight", "negative interpolation weight", value=float(wm.min()), **ctx))
            worst["lost"] = max(worst["lost"], float(lost) / tol)
            if lost > tol:
                fails.append(Fail(f"{kernel}:support-lost", "a cell closer than two spacings lies outside the returned window (weight lost)", lost=float(lost), nearest=[int(v) for v in near[:, m]], **ctx))
            s = float(wm.sum() * LD(dx) ** dim)
            worst["sum"] = max(worst["sum"], abs(s - 1) / tol)
            if abs(s - 1) > tol:
                fails.append(Fail(f"{kernel}:partition-of-unity", "weights times cell volume do not sum to one", total=s, **ctx))
            if abs(float(lag_c[0, m]) - 2.5) > 2.5 * tol:
                fails.append(Fail(f"{kernel}:constant-field", "interpolating a constant field does not return the constant", got=float(lag_c[0, m]), **ctx))
            if kernel == "peskin":
                for k in range(dim):
                    a = dim - 1 - k
                    centres = win[a] * LD(dx) + LD(origin)
                    sh = [1] * dim
                    sh[a] = 4
                    mom = float(((centres - LD(float(P[k, m]))).reshape(sh) * wm).sum() * LD(dx) ** dim) / dx
                    worst["moment"] = max(worst["moment"], abs(mom) / tol)
                    if abs(mom) > tol:
                        fails.append(Fail("peskin:first-moment", "Peskin kernel first moment does not vanish", axis=k, moment_over_dx=mom, **ctx))
                    if abs(float(lag_p[k, m]) - float(P[k, m])) > tol * dx + 4 * eps * abs(float(P[k, m])):
                        fails.append(Fail("peskin:affine-field", "interpolating the cell-centre coordinate field does not return the marker position", axis=k, got=float(lag_p[k, m]), want=float(P[k, m]), **ctx))
    return CaseResult(fails=fails, states=states, transitions=3 * ((len(combos) + n - 1) // n), traces=states,
                      outcome=f"{dim}:{kernel}:{dtype}:{dx}:{slipped > 0}", extra={"worst_over_tol": worst, "floor_index_slips": slipped, "positions": len(combos)})


CASES = {"lattice": case_lattice}


def base_cell_sets(dim, shape, dev):
    """Base cells {2, 3, n/2, n-3} per axis (marker axis order x, y, z), crossed with at most
    ``dev`` axes away from the default n/2 (None = full cross)."""
    ncell = [shape[dim - 1 - k] for k in range(dim)]
    alph = [[n // 2, 2, 3, n - 3] for n in ncell]
    out = []
    for pt in explore.lattice({str(k): alph[k] for k in range(dim)}, dev):
        out.append([[pt[str(k)]] for k in range(dim)])
    return out


def run(r) -> None:
    quick = r.tier == "quick"
    cases = []
    for dim in (2, 3):
        shape = lagcomm.SHAPES[dim]
        sets = base_cell_sets(dim, shape, None if (dim == 2 or not quick) else 1)
        for kernel in ("cosine", "peskin"):
            for dt in ("float64", "float32"):
                for dx in lagcomm.DXS:
                    if dim == 3:
                        for bc in sets:
                            cases.append(dict(dim=dim, kernel=kernel, dtype=dt, dx=dx, base_cells=bc))
                    else:
                        # 2-D: full cross of base cells in one case per x-cell
                        ncell = [shape[1], shape[0]]
                        for cx in [ncell[0] // 2, 2, 3, ncell[0] - 3]:
                            cases.append(dict(dim=dim, kernel=kernel, dtype=dt, dx=dx, base_cells=[[cx], [ncell[1] // 2, 2, 3, ncell[1] - 3]]))
    # marker-count alphabet: the closures are specialised on the number of markers (1 marker; 1500 markers: beyond 1024 and not a multiple of any power-of-two block size; 512 markers:
    # above any "large marker count" threshold a maintainer might introduce), one base cell per axis
    for dim in (2, 3):
        shape = lagcomm.SHAPES[dim]
        mid = [[shape[dim - 1 - k] // 2] for k in range(dim)]
        for kernel in ("cosine", "peskin"):
            for dt in ("float64", "float32"):
                for nm in ((1, 512, 1500) if dt == "float64" else (1, 512)):
                    cases.append(dict(dim=dim, kernel=kernel, dtype=dt, dx=lagcomm.DXS[0], base_cells=mid, n_markers=nm))
    # grids whose first cell centre is not at dx / 2 (node-centred grid, far-offset origin)
    for dim in (2, 3):
        shape = lagcomm.SHAPES[dim]
        mid = [[shape[dim - 1 - k] // 2, 2] for k in range(dim)]
        for kernel in ("cosine", "peskin"):
            for dt in ("float64", "float32"):
                for sh in ("zero", "far"):
                    cases.append(dict(dim=dim, kernel=kernel, dtype=dt, dx=lagcomm.DXS[1], base_cells=mid if dim == 2 else [m[:1] for m in mid], shift=sh))
    # the lowest admissible positions (exactly two cells inside the low faces), every axis
    for dim in (2, 3):
        for kernel in ("cosine", "peskin"):
            for dt in ("float64", "float32"):
                for dx in lagcomm.DXS[:2]:
                    cases.append(dict(dim=dim, kernel=kernel, dtype=dt, dx=dx, base_cells=[[1]] * dim, edge="low"))
    # spacings larger than one
    for dim in (2, 3):
        shape = lagcomm.SHAPES[dim]
        mid = [[shape[dim - 1 - k] // 2, 2] for k in range(dim)]
        for kernel in ("cosine", "peskin"):
            for dt in ("float64", "float32"):
                for dx in lagcomm.LARGE_DXS:
                    cases.append(dict(dim=dim, kernel=kernel, dtype=dt, dx=dx, base_cells=mid if dim == 2 else [m[:1] for m in mid]))
    res = r.run_cases("offset-lattice", "lattice", cases)
    agg = {}
    slips = 0
    for x in res:
        if x is None:
            continue
        slips += x["extra"]["floor_index_slips"]
        for k, v in x["extra"]["worst_over_tol"].items():
            agg[k] = max(agg.get(k, 0.0), v)
    r.extra["worst_deviation_over_tolerance"] = agg
    r.extra["positions_where_floor_index_slipped"] = slips
    r.bounds = {"offsets_per_axis": [f"{o[0]}:{o[1]}{o[2]:+d}ulp" for o in offsets_alphabet(np.float64)], "crossed_over_all_axes": True,
                "base_cells": "{n/2, 2, 3, n-3} per axis; cell 1 with offsets >= 1/2 (exactly two cells inside the low faces)" + (" (3-D: at most one axis away from n/2)" if quick else " (full cross)"),
                "dx": lagcomm.DXS + lagcomm.LARGE_DXS, "grid_origins": lagcomm.SHIFTS, "shapes": lagcomm.SHAPES, "batch": lagcomm.N_BATCH, "marker_counts": [1, lagcomm.N_BATCH, 512, 1500]}
    r.extra["rule"] = "one state per marker position of the offset lattice (all axes crossed); every position goes through the real support/weights/interpolation closures"
    r.assumptions = ["numba closures compiled with fastmath: inputs contain no NaN/inf; tolerances 4 eps (4 + |x|/dx) relative to (1/dx)^d"]
