"""C19 - stabilising operators never amplify and leave admissible states fixed.

lattice : Brinkmann penalisation (2-D/3-D kernels, fixed-value variant, scalar/vector wrappers,
          Lagrangian variant) over u, u_b x lambda x chi alphabets; smooth characteristic function
          over the level-set alphabet around +-blend width (+-1 ulp); boundary damping over widths
          0..6 x shapes x patterns, scalar and vector, 2-D and 3-D.
basis   : Laplacian filters (orders 1..4, both types, scalar and vector): exact impulse response,
          Fourier symbol on (2 pi / 12) Z_12^3 in [0, 1], 1 at k = 0, 0 at the checkerboard mode;
          constants fixed and checkerboard annihilated in exact arithmetic.
bfs     : filter results independent of prior work-buffer contents (histories of depth 2).
"""

from __future__ import annotations

import itertools
from fractions import Fraction

import numpy as np

from harness import explore
from harness.core import CaseResult, Fail
from harness.registry import position_field
from refmodel.poly import zeros

U_ALPHA = [-3.0, -1.0, 0.0, 0.5, 2.0, 1e6]
LAM = [0.0, 1e-3, 1.0, 1e3, 1e9]
CHI = [0.0, 0.25, 1.0]


def case_brinkmann(variant, dim, field_type, dtype, inplace=False):
    """inplace: the field is penalised IN PLACE (the output array is the field array itself), which an
    element-wise law allows and callers use."""
    import sopht.numeric.eulerian_grid_ops as spne

    real_t = np.dtype(dtype).type
    eps = float(np.finfo(real_t).eps)
    combos = list(itertools.product(U_ALPHA, U_ALPHA, CHI))
    shape = (9, 12) if dim == 2 else (3, 3, 12)
    assert int(np.prod(shape)) == len(combos)
    u = np.array([c[0] for c in combos], dtype=real_t).reshape(shape)
    ub = np.array([c[1] for c in combos], dtype=real_t).reshape(shape)
    chi = np.array([c[2] for c in combos], dtype=real_t).reshape(shape)
    fails = []
    tag = f"brinkmann:{variant}_{dim}d:{field_type}" + (":in-place" if inplace else "")
    ncomp = dim if field_type == "vector" else 1
    prev_dist = None
    states = 0
    fixed_vals = U_ALPHA if variant == "fixed" else [None]
    for fv in fixed_vals:
        prev_dist = None
        for lam in LAM:
            if variant == "lagrangian":
                from sopht.numeric.immersed_boundary_ops.experimental.BrinkmannBoundaryForcing import BrinkmannBoundaryForcing

                out = np.full((dim, u.size), np.nan, dtype=real_t)
                uu = np.stack([u.ravel()] * dim)
                bb = np.stack([ub.ravel()] * dim)
                for lam_dt in ((lam, 1.0), (np.sqrt(lam), np.sqrt(lam))):
                    if inplace:
                        out = uu.copy()
                        BrinkmannBoundaryForcing.brinkmann_penalise_lag_grid_velocity_field(out, out, bb, real_t(lam_dt[0]), real_t(lam_dt[1]))
                    else:
                        BrinkmannBoundaryForcing.brinkmann_penalise_lag_grid_velocity_field(out, uu, bb, real_t(lam_dt[0]), real_t(lam_dt[1]))
                outs = [out[0].reshape(shape)]
                chi_eff = np.ones(shape, dtype=real_t)
                target = ub
            else:
                if variant == "fixed":
                    k = spne.gen_brinkmann_penalise_vs_fixed_val_pyst_kernel_2d(real_t=real_t, field_type=field_type)
                    target = np.full(shape, fv, dtype=real_t)
                else:
                    k = getattr(spne, f"gen_brinkmann_penalise_pyst_kernel_{dim}d")(real_t=real_t, field_type=field_type)
                    target = ub
                if field_type == "scalar":
                    f_in = u.copy()
                    out = f_in if inplace else np.full(shape, np.nan, dtype=real_t)
                    if variant == "fixed":
                        k(penalised_field=out, field=f_in, char_field=chi.copy(), penalty_factor=lam, penalty_val=fv)
                    else:
                        k(penalised_field=out, field=f_in, char_field=chi.copy(), penalty_field=ub.copy(), penalty_factor=lam)
                    outs = [out]
                else:
                    vec_u = np.stack([u * (1 if c == 0 else -0.5 * c) for c in range(ncomp)]).astype(real_t)
                    out = vec_u if inplace else np.full((ncomp, *shape), np.nan, dtype=real_t)
                    if variant == "fixed":
                        k(penalised_vector_field=out, penalty_factor=lam, char_field=chi.copy(), penalty_val=[fv * (1 if c == 0 else -0.5 * c) for c in range(ncomp)], vector_field=vec_u)
                    else:
                        vec_b = np.stack([ub * (1 if c == 0 else -0.5 * c) for c in range(ncomp)]).astype(real_t)
                        k(penalised_vector_field=out, penalty_factor=lam, char_field=chi.copy(), penalty_vector_field=vec_b, vector_field=vec_u)
                    # component c is the scalar law applied to the scaled inputs; normalise back for the common checks
                    outs = [out[0]] + [out[c] / real_t(-0.5 * c) for c in range(1, ncomp)]
                chi_eff = chi
            for ci, o in enumerate(outs):
                states += o.size
                o64, u64, t64 = o.astype(np.float64), u.astype(np.float64), target.astype(np.float64)
                lo, hi = np.minimum(u64, t64), np.maximum(u64, t64)
                slack = 8 * eps * np.maximum(np.abs(u64), np.abs(t64))
                bad = ~((o64 >= lo - slack) & (o64 <= hi + slack))
                if np.any(bad):
                    i = int(np.argmax(bad.ravel()))
                    fails.append(Fail(f"{tag}:not-convex", "penalised value is not a convex combination of field and target", lam=lam, component=ci, u=float(u64.ravel()[i]), target=float(t64.ravel()[i]), chi=float(chi_eff.ravel()[i]), got=float(o64.ravel()[i])))
                th = lam * chi_eff.astype(np.float64)
                want = (u64 + th * t64) / (1 + th)
                if np.any(np.abs(o64 - want) > 8 * eps * (np.abs(u64) + np.abs(t64)) + 0):
                    i = int(np.argmax(np.abs(o64 - want).ravel()))
                    fails.append(Fail(f"{tag}:formula", "penalised value differs from (u + lambda chi u_b) / (1 + lambda chi)", lam=lam, component=ci, u=float(u64.ravel()[i]), target=float(t64.ravel()[i]), got=float(o64.ravel()[i]), want=float(want.ravel()[i])))
                zero = th == 0
                if np.any(o[zero] != u[zero]):
                    fails.append(Fail(f"{tag}:changes-where-indicator-zero", "field changed where the indicator (or the penalty) is zero", lam=lam, component=ci))
                if ci == 0:
                    dist = np.abs(o64 - t64)
                    if prev_dist is not None and np.any(dist > prev_dist * (1 + 16 * eps) + 8 * eps * np.abs(t64)):
                        fails.append(Fail(f"{tag}:not-monotone-in-penalty", "|out - target| increased when the penalty grew", lam=lam))
                    prev_dist = dist
                    if lam == LAM[-1]:
                        on = th > 0
                        if np.any(dist[on] > np.abs(u64 - t64)[on] / (1 + th[on]) * (1 + 64 * eps) + 8 * eps * (np.abs(t64[on]) + np.abs(u64[on]) / th[on])):
                            fails.append(Fail(f"{tag}:no-limit", "penalised value does not tend to the target as the penalty grows", lam=lam))
    return CaseResult(fails=fails, states=states, transitions=len(LAM) * len(fixed_vals), traces=len(LAM) * len(fixed_vals), outcome=f"{tag}:{dtype}")


def case_charfunc(dim, dtype, bw):
    import sopht.numeric.eulerian_grid_ops as spne

    real_t = np.dtype(dtype).type
    eps = float(np.finfo(real_t).eps)
    k = getattr(spne, f"gen_char_func_from_level_set_via_sine_heaviside_pyst_kernel_{dim}d")(blend_width=bw, real_t=real_t)
    b = real_t(bw)
    up = lambda x: np.nextafter(real_t(x), real_t(np.inf))  # noqa: E731
    dn = lambda x: np.nextafter(real_t(x), real_t(-np.inf))  # noqa: E731
    alpha = [real_t(-2) * b, dn(-b), -b, up(-b), real_t(-0.5) * b, dn(real_t(0)), real_t(0), up(real_t(0)), real_t(0.5) * b, dn(b), b, up(b), real_t(2) * b]
    alpha += [real_t(-0.9) * b, real_t(-0.25) * b, real_t(0.25) * b, real_t(0.9) * b, real_t(1e-3) * b, real_t(-1e-3) * b]
    # dense sweep of the blend zone: range / monotonicity can fail anywhere inside it (a wrongly scaled sine term overshoots near
    # |phi| -> blend width only, and only for blend widths above one)
    alpha += [real_t(t) * b for t in np.linspace(-1.0, 1.0, 65)]
    alpha = sorted(set(float(a) for a in alpha))
    shape = (1, len(alpha)) if dim == 2 else (1, 1, len(alpha))
    phi = np.array(alpha, dtype=real_t).reshape(shape)
    H = np.full(shape, np.nan, dtype=real_t)
    k(char_func_field=H, level_set_field=phi.copy())
    Hn = np.full(shape, np.nan, dtype=real_t)
    k(char_func_field=Hn, level_set_field=(-phi).copy())
    h, hn, p = H.ravel().astype(np.float64), Hn.ravel().astype(np.float64), phi.ravel().astype(np.float64)
    fails = []
    tag = f"charfunc_{dim}d"
    tol = 8 * eps
    if np.any(h < -tol) or np.any(h > 1 + tol) or not np.all(np.isfinite(h)):
        fails.append(Fail(f"{tag}:range", "characteristic function outside [0, 1]", values=h.tolist()))
    if np.any(np.diff(h) < -tol):
        i = int(np.argmin(np.diff(h)))
        fails.append(Fail(f"{tag}:monotone", "characteristic function is not non-decreasing in the level set", at=[p[i], p[i + 1]], values=[h[i], h[i + 1]]))
    beyond_lo, beyond_hi = p < -float(b), p > float(b)
    if np.any(h[beyond_lo] != 0) or np.any(h[beyond_hi] != 1):
        fails.append(Fail(f"{tag}:saturation", "characteristic function is not exactly 0 / 1 beyond the blend width", below=h[beyond_lo].tolist(), above=h[beyond_hi].tolist()))
    if np.any(np.abs(h + hn - 1) > tol):
        i = int(np.argmax(np.abs(h + hn - 1)))
        fails.append(Fail(f"{tag}:symmetry", "H(phi) + H(-phi) != 1", phi=p[i], total=float(h[i] + hn[i])))
    if abs(h[alpha.index(0.0)] - 0.5) > tol:
        fails.append(Fail(f"{tag}:midpoint", "H(0) != 1/2", value=float(h[alpha.index(0.0)])))
    return CaseResult(fails=fails, states=len(alpha), transitions=2, traces=2, outcome=f"{tag}:{dtype}:{bw}:{len(set(h.tolist()))}")


def case_damping(dim, field_type, dtype, width, extra, pattern, origins=None, length=1.0):
    import sopht.numeric.eulerian_grid_ops as spne

    real_t = np.dtype(dtype).type
    eps = float(np.finfo(real_t).eps)
    base = max(2 * width + 1, 3)
    shape = tuple(base + extra + (i if extra else 0) for i in range(dim))
    dx = length / shape[-1]  # length: physical extent along x (the ramp is a function of distance / dx only)
    pos = position_field(shape, dx, real_t, origins)
    kw = dict(width=width, dx=real_t(dx), x_grid_field=pos[0], y_grid_field=pos[1], real_t=real_t)
    if dim == 3:
        kw["z_grid_field"] = pos[2]
        kw["field_type"] = field_type
    k = getattr(spne, f"gen_penalise_field_boundary_pyst_kernel_{dim}d")(**kw)
    n = int(np.prod(shape))
    dist = np.min(np.stack([np.minimum(ix, s - 1 - ix) for ix, s in zip(np.indices(shape), shape)]), axis=0)
    zone = dist < width
    edge = dist == (width - 1)
    f = np.zeros(shape)
    if pattern == "constant":
        f[...] = 2.5
    elif pattern == "generic":
        f[...] = np.sin(np.arange(n) * 0.7 + 0.3).reshape(shape) * 3 + 0.2
    elif pattern == "impulse-inner-edge":
        if width == 0:
            f[tuple(s // 2 for s in shape)] = -4.0
        else:
            idx = np.argwhere(edge)
            f[tuple(idx[len(idx) // 3])] = -4.0
    elif pattern == "impulse-in-zone":
        idx = np.argwhere(dist == max(0, width - 2)) if width > 1 else np.argwhere(dist == 0)
        f[tuple(idx[len(idx) // 2])] = 3.0
    elif pattern == "impulse-outside":
        f[tuple(s // 2 for s in shape)] = 1.5
    comps = 3 if (dim == 3 and field_type == "vector") else 1
    arr = np.stack([f * (1.0 + 0.5 * c) for c in range(comps)]).astype(real_t) if comps > 1 else f.astype(real_t)
    before = arr.copy()
    if dim == 3 and field_type == "vector":
        k(vector_field=arr)
    else:
        k(field=arr)
    fails = []
    tag = f"damping_{dim}d:{field_type}"
    for c in range(comps):
        a = arr[c] if comps > 1 else arr
        b = before[c] if comps > 1 else before
        ctx = dict(width=width, shape=shape, pattern=pattern, component=c, dtype=dtype)
        if not np.all(np.isfinite(a)):
            fails.append(Fail(f"{tag}:nonfinite", "damping produced non-finite values", **ctx))
            continue
        if a[~zone].tobytes() != b[~zone].tobytes():
            fails.append(Fail(f"{tag}:outside-zone-modified", "cells outside the boundary zone were modified", **ctx))
        if width > 0:
            ring = dist == 0
            bound = float(np.abs(b[edge]).max()) if edge.any() else 0.0
            if np.abs(a[ring]).max() > 8 * eps * max(bound, 1e-300) + 0:
                fails.append(Fail(f"{tag}:ring-not-zero", "outermost ring not driven to zero", max=float(np.abs(a[ring]).max()), **ctx))
            if np.abs(a[zone]).max() > bound * (1 + 8 * eps):
                fails.append(Fail(f"{tag}:amplified", "a zone value exceeds the largest magnitude the field had on the zone's inner edge", got=float(np.abs(a[zone]).max()), bound=bound, **ctx))
    return CaseResult(fails=fails, states=comps, transitions=1, traces=1, outcome=f"{tag}:{width}:{pattern}:{bool(np.any(arr != before))}")


def case_filter_symbol(ftype, order, field_type):
    import sopht.numeric.eulerian_grid_ops as spne

    R = np.float64
    m = 2 * order + 3
    shape = (m + 2, m + 4, m + 3)
    centre = tuple(s // 2 for s in shape)
    fb, gb = zeros(shape, 7), zeros(shape, -3)
    k = spne.gen_laplacian_filter_kernel_3d(filter_order=order, filter_flux_buffer=fb, field_buffer=gb, real_t=R, filter_type=ftype, field_type=field_type)
    fails = []
    tag = f"filter:{ftype}:{field_type}"

    def run(field):
        if field_type == "vector":
            v = np.stack([field.copy(), field.copy() * 2, field.copy() * -1])
            k(vector_field=v)
            for c, s in ((1, 2), (2, -1)):
                if np.any(v[c] != v[0] * s):
                    fails.append(Fail(f"{tag}:component", "vector filter does not act component by component", order=order, component=c))
            return v[0]
        f = field.copy()
        k(scalar_field=f)
        return f

    imp = zeros(shape)
    imp[centre] = Fraction(1)
    h = run(imp)
    # support must stay within +-order cells of the impulse
    idx = np.argwhere(h != 0)
    if np.abs(idx - np.array(centre)).max() > order:
        fails.append(Fail(f"{tag}:support", "impulse response wider than the filter order", order=order))
    hs = h[tuple(slice(c - order, c + order + 1) for c in centre)].astype(np.float64)
    N = 12
    ks = 2 * np.pi * np.arange(N) / N
    off = np.arange(-order, order + 1)
    E = [np.exp(-1j * np.outer(ks, off)) for _ in range(3)]
    sym = np.einsum("abc,ia,jb,kc->ijk", hs, E[0], E[1], E[2])
    if np.abs(sym.imag).max() > 1e-12:
        fails.append(Fail(f"{tag}:symbol-complex", "filter symbol is not real (impulse response not symmetric)", order=order))
    s = sym.real
    if s.min() < -1e-12 or s.max() > 1 + 1e-12:
        i = np.unravel_index(np.argmax(np.maximum(s - 1, -s)), s.shape)
        fails.append(Fail(f"{tag}:symbol-range", "filter multiplies a Fourier mode by a factor outside [0, 1]", order=order, mode=[int(v) for v in i], factor=float(s[i])))
    if abs(s[0, 0, 0] - 1) > 1e-12:
        fails.append(Fail(f"{tag}:symbol-dc", "filter symbol at k = 0 is not one", order=order, value=float(s[0, 0, 0])))
    if abs(s[N // 2, N // 2, N // 2]) > 1e-12:
        fails.append(Fail(f"{tag}:symbol-checkerboard", "filter symbol at the checkerboard wavenumber is not zero", order=order, value=float(s[N // 2, N // 2, N // 2])))
    # exact: constants fixed and checkerboard annihilated away from the boundary
    inner = tuple(slice(3 * order + 1, n - 3 * order - 1) for n in shape)
    big = tuple(n + 6 * order for n in shape)
    fb2, gb2 = zeros(big, 1), zeros(big, 2)
    k2 = spne.gen_laplacian_filter_kernel_3d(filter_order=order, filter_flux_buffer=fb2, field_buffer=gb2, real_t=R, filter_type=ftype)
    inner2 = tuple(slice(3 * order + 1, n - 3 * order - 1) for n in big)
    const = zeros(big, Fraction(7, 3))
    k2(scalar_field=const)
    if np.any(const[inner2] != Fraction(7, 3)):
        fails.append(Fail(f"{tag}:constant", "filter does not keep constants fixed (exact arithmetic)", order=order))
    chk = zeros(big)
    par = np.indices(big).sum(0) % 2
    chk[par == 0] = Fraction(3, 2)
    chk[par == 1] = Fraction(-3, 2)
    k2(scalar_field=chk)
    if np.any(chk[inner2] != 0):
        fails.append(Fail(f"{tag}:checkerboard", "filter does not annihilate the cell-wise checkerboard mode (exact arithmetic)", order=order, sample=chk[inner2].ravel()[0]))
    del inner
    return CaseResult(fails=fails, states=N**3 + 2, transitions=3, traces=3, outcome=f"{tag}:{order}:{round(float(s.min()), 6)}", extra={"symbol_min": float(s.min()), "symbol_max": float(s.max())})


def case_filter_history(ftype, order, field_type, dtype, poison, depth=3):
    import sopht.numeric.eulerian_grid_ops as spne

    real_t = np.dtype(dtype).type
    shape = (7, 8, 9)
    n = int(np.prod(shape))
    fields = {"A": (np.sin(np.arange(n) * 0.9) * 2).reshape(shape).astype(real_t), "B": ((np.arange(n) * 7 % 11) - 5.0).reshape(shape).astype(real_t)}
    if field_type == "vector":
        fields = {k: np.stack([v, -2 * v, 0.5 * v]).astype(real_t) for k, v in fields.items()}
    tag = f"filter-history:{ftype}:{field_type}"

    def build():
        fb, gb = np.zeros(shape, dtype=real_t), np.zeros(shape, dtype=real_t)
        return {"fb": fb, "gb": gb, "k": spne.gen_laplacian_filter_kernel_3d(filter_order=order, filter_flux_buffer=fb, field_buffer=gb, real_t=real_t, filter_type=ftype, field_type=field_type), "out": None}

    fresh = {}
    for name, f in fields.items():
        s = build()
        g = f.copy()
        s["k"](**({"vector_field": g} if field_type == "vector" else {"scalar_field": g}))
        fresh[name] = g

    def apply_event(s, ev):
        if ev in fields:
            g = fields[ev].copy()
            s["k"](**({"vector_field": g} if field_type == "vector" else {"scalar_field": g}))
            s["out"] = g
            return ev
        s["fb" if ev == "poison-flux" else "gb"][...] = poison
        return ev

    def key(s):
        return explore.array_state_key(s["fb"], s["gb"], *( [s["out"]] if s["out"] is not None else []))

    def check(s, hist, ev, obs):
        if ev in fields and s["out"].tobytes() != fresh[ev].tobytes():
            return [Fail(f"{tag}:buffer-dependence", "filter result depends on what the work buffers held before", history=list(hist) + [ev], order=order, finite=bool(np.all(np.isfinite(s["out"]))))]
        return []

    res = explore.bfs(build, ["A", "B", "poison-flux", "poison-field"], apply_event, key, check, depth)
    return CaseResult(fails=res.fails, states=res.states, transitions=res.transitions, traces=res.transitions, outcome=f"{tag}:{order}:{res.states}")


# blend widths below, at and above one (level sets in lattice units / large domains have blend widths of several units)
CHARFUNC_BLEND_WIDTHS = (0.1, 1.0 / 3.0, 1.0, 2.0, 3.0, 7.5, 1e-3, 64.0)
CASES = {"brinkmann": case_brinkmann, "charfunc": case_charfunc, "damping": case_damping, "filter_symbol": case_filter_symbol, "filter_history": case_filter_history}


def run(r) -> None:
    r.bind_model()
    quick = r.tier == "quick"
    dts = ("float64", "float32")
    br = [dict(variant="field", dim=d, field_type=ft, dtype=dt) for d in (2, 3) for ft in ("scalar", "vector") for dt in dts]
    br += [dict(variant="fixed", dim=2, field_type=ft, dtype=dt) for ft in ("scalar", "vector") for dt in dts]
    br += [dict(variant="lagrangian", dim=d, field_type="scalar", dtype=dt) for d in (2, 3) for dt in dts]
    br += [dict(c, inplace=True) for c in br]  # every variant also with the field penalised in place
    r.run_cases("brinkmann", "brinkmann", br)
    r.run_cases("characteristic-function", "charfunc", [dict(dim=d, dtype=dt, bw=bw) for d in (2, 3) for dt in dts for bw in CHARFUNC_BLEND_WIDTHS])
    damp = []
    for d in (2, 3):
        for ft in (("scalar",) if d == 2 else ("scalar", "vector")):
            for dt in dts:
                for w in range(0, 7):
                    for extra in ((0, 1, 3) if (w <= 3 or not quick or d == 2) else (0, 1)):
                        for pat in ("constant", "generic", "impulse-inner-edge", "impulse-in-zone", "impulse-outside"):
                            damp.append(dict(dim=d, field_type=ft, dtype=dt, width=w, extra=extra, pattern=pat))
    # coordinate grids whose axes start at different coordinates
    for d in (2, 3):
        for ft in (("scalar",) if d == 2 else ("scalar", "vector")):
            for w in (1, 2, 3):
                for pat in ("constant", "generic", "impulse-inner-edge"):
                    damp.append(dict(dim=d, field_type=ft, dtype="float64", width=w, extra=1, pattern=pat, origins=[-0.37, 1.21, 0.043][:d]))
    # domain lengths far from 1, with and without a shifted origin
    for d in (2, 3):
        for ft in (("scalar",) if d == 2 else ("scalar", "vector")):
            for w in (1, 2, 3):
                for pat in ("constant", "generic", "impulse-inner-edge"):
                    for length in (37.0, 0.01):
                        for dt in dts:
                            damp.append(dict(dim=d, field_type=ft, dtype=dt, width=w, extra=1, pattern=pat, length=length))
                        damp.append(dict(dim=d, field_type=ft, dtype="float64", width=w, extra=1, pattern=pat, length=length, origins=[-0.37 * length, 1.21 * length, 0.043 * length][:d]))
    r.run_cases("boundary-damping", "damping", damp, chunksize=8)
    orders = (1, 2, 3) if quick else (1, 2, 3, 4)
    r.run_cases("filter-symbol", "filter_symbol", [dict(ftype=t, order=o, field_type=ft) for t in ("multiplicative", "convolution") for o in orders for ft in ("scalar", "vector")])
    r.run_cases("filter-history", "filter_history", [dict(ftype=t, order=o, field_type=ft, dtype=dt, poison=p, depth=3 if quick else 5) for t in ("multiplicative", "convolution") for o in ((1, 2) if quick else (1, 2, 3, 4)) for ft in ("scalar", "vector")
                                                     for dt in dts for p in (float("nan"), 1e30)])
    r.bounds = {"brinkmann": {"u,u_b": U_ALPHA, "lambda": LAM, "chi": CHI}, "level_set": "phi/eps in {-2,-1-ulp,-1,-1+ulp,-0.9,-0.5,-0.25,-1e-3,-ulp,0,ulp,1e-3,0.25,0.5,0.9,1-ulp,1,1+ulp,2} and 65 equispaced values in [-1, 1], eps in " + repr(CHARFUNC_BLEND_WIDTHS),
                "damping_widths": list(range(7)), "filter_orders": list(orders), "filter_history_depth": 3}
    r.extra["rule"] = "brinkmann/charfunc: one state per alphabet tuple (cell); damping: per (width, shape, pattern, variant); filters: per Fourier mode of the 12^3 lattice + BFS states of buffer histories"
    r.assumptions = ["interpreter back end (float and exact modes), bound by conformance replay"]
