"""C16 - the recommended time step is stable and keeps diffusion monotone.

lattice (full product): simulator class x grid x dtype x viscosity x CFL x prefactor x velocity
pattern, through the public compute_stable_timestep(dt_prefac).  Oracle: finite, positive, linear
in the prefactor, advective and diffusive limits respected beyond rounding.
basis/exact: the diffusion time-step kernels (2-D, 3-D scalar/vector) as matrices from unit
impulses on Fraction arrays, with beta at the stated limit 0.9/(2 d) and with beta obtained from a
returned dt: all entries >= 0, rows sum to 1 (convex averaging), boundary-ring rows are identity.
"""

from __future__ import annotations

import itertools
from fractions import Fraction

import numpy as np

from harness import simcfg
from harness.core import CaseResult, Fail
from refmodel.poly import zeros

NUS = [1e-2, 1e-4, 1.0, 50.0, 1e-6, 1e-9]  # incl. viscosities below single-precision eps (water in SI units is 1e-6)
CFLS = [0.1, 0.05, 0.5, 1.0]
PREFACS = [1.0, 0.5, 0.1]
VELS = ["zero", "uniform", "spike", "spike-corner", "alternating", "one-component"]
GRIDS = {2: [(8, 8), (16, 12), (256, 256)], 3: [(8, 8, 8), (12, 8, 16), (96, 96, 96)]}
KINDS = ["ns2d", "ns3d", "pt2d", "pt3ds", "pt3dv"]


def _velocity(name, dim, shape, dtype):
    v = np.zeros((dim, *shape), dtype=dtype)
    if name == "uniform":
        for k in range(dim):
            v[k] = 0.7 - 0.4 * k
    elif name == "spike":
        v[(0, *[n // 2 for n in shape])] = 1e3
        v[(dim - 1, *[n // 3 for n in shape])] = -2e2
    elif name == "spike-corner":  # the maximum sits on the outermost ring (first / last cell), the rest is slow
        for k in range(dim):
            v[k] = 0.01
        v[(0, *[0 for _ in shape])] = -5e2
        v[(dim - 1, *[n - 1 for n in shape])] = 3e2
    elif name == "alternating":
        idx = np.indices(shape).sum(0)
        for k in range(dim):
            v[k] = np.where((idx + k) % 2 == 0, 1.5, -2.5)
    elif name == "one-component":
        v[dim - 1] = -0.3
    return v


def case_dt(kind, shape, dtype, nus, cfls, rho=1.0, x_range=1.0):
    """One simulator per (kind, shape, dtype, nu, cfl) for small grids; the largest grid of each
    dimension reuses one object and sets the public attributes (reported in the evidence)."""
    real_t = np.dtype(dtype).type
    shape = tuple(shape)
    dim = simcfg.dim_of(kind)
    eps = float(np.finfo(real_t).eps)
    fails = []
    states = 0
    big = int(np.prod(shape)) > 20000
    sim = None
    outcomes = set()
    for nu, cfl in itertools.product(nus, cfls):
        if sim is None or not big:
            cfg = dict(kind=kind, shape=shape, dtype=dtype, params=[1e-2, nu, rho], x_range=x_range, poisson="fastdiag" if kind == "ns3d" and big else "greens")
            sim = simcfg.make_sim(cfg)
        sim.kinematic_viscosity = nu
        sim.cfl = cfl
        dx = float(real_t(x_range / shape[-1]))  # documented spacing, not read back from the simulator
        for vi, vel in enumerate(VELS):
            if vi % 2 == 0 or big:
                sim.velocity_field[...] = _velocity(vel, dim, shape, real_t)
            else:
                # the public attribute is re-bound to a NEW array (how a prescribed velocity is naturally set on the
                # passive-transport simulator): "the velocity field of the simulator" is whatever the attribute holds
                sim.velocity_field = _velocity(vel, dim, shape, real_t)
            umax = float(np.abs(sim.velocity_field.astype(np.float64)).sum(0).max())
            dts = {}
            for p in PREFACS:
                dt = sim.compute_stable_timestep(dt_prefac=p)
                dts[p] = float(dt)
                states += 1
                ctx = dict(kind=kind, shape=shape, dtype=dtype, nu=nu, cfl=cfl, velocity=vel, prefactor=p, dt=float(dt), rho=rho, x_range=x_range)
                if not np.isfinite(dt) or not dt > 0:
                    fails.append(Fail("dt:finite-positive", "returned time step is not finite and positive", **ctx))
                    continue
            dt1 = dts[1.0]
            if not (np.isfinite(dt1) and dt1 > 0):
                continue
            for p in PREFACS:
                if abs(dts[p] - p * dt1) > 4 * eps * p * dt1:
                    fails.append(Fail("dt:prefactor-linearity", "time step does not scale linearly with the prefactor", kind=kind, nu=nu, cfl=cfl, velocity=vel, p=p, dt_p=dts[p], dt_1=dt1))
            adv = dt1 * umax / dx
            if adv > cfl * (1 + 16 * eps):
                fails.append(Fail("dt:advective-limit", "dt * max(sum |u|) / dx exceeds the CFL number", kind=kind, shape=shape, dtype=dtype, nu=nu, cfl=cfl, velocity=vel, value=adv))
            dif = nu * dt1 / dx**2
            lim = 0.9 / (2 * dim)
            if dif > lim * (1 + 16 * eps):
                fails.append(Fail("dt:diffusive-limit", "nu * dt / dx^2 exceeds 0.9 / (2 * dimension) beyond rounding",
                                  kind=kind, shape=shape, dtype=dtype, nu=nu, cfl=cfl, velocity=vel, value=dif, limit=lim, excess_rel=dif / lim - 1, rho=rho))
            outcomes.add("adv" if adv > 0.99 * cfl else ("dif" if dif > 0.99 * lim else "none"))
    return CaseResult(fails=fails, states=states, transitions=states, traces=states, outcome=f"{kind}:{shape}:{dtype}:{sorted(outcomes)}", extra={"binding_limits_seen": sorted(outcomes), "reused_object": big})


def case_maxprinciple(dim, field_type, beta_src):
    import sopht.numeric.eulerian_grid_ops as spne

    R = np.float64
    shape = (5, 6) if dim == 2 else (4, 5, 6)
    kw = {} if dim == 2 else {"field_type": field_type}
    step = getattr(spne, f"gen_diffusion_timestep_euler_forward_pyst_kernel_{dim}d")(real_t=R, **kw)
    fails = []
    if beta_src == "limit":
        beta = Fraction(9, 10) / (2 * dim)
    else:
        # beta from a dt the library returns (zero velocity => diffusive limit binds)
        kind = "pt2d" if dim == 2 else ("pt3dv" if field_type == "vector" else "pt3ds")
        nu = 0.03
        sim = simcfg.make_sim(dict(kind=kind, shape=(8, 9) if dim == 2 else (6, 7, 8), dtype="float64", params=[1e-2, nu, 1.0]))
        dt = float(sim.compute_stable_timestep())
        beta = Fraction(nu) * Fraction(dt) / Fraction(float(sim.dx)) ** 2
    n = int(np.prod(shape))
    ncomp = 3 if field_type == "vector" else 1
    cells = list(itertools.product(*[range(s) for s in shape]))
    M = np.empty((ncomp * n, ncomp * n), dtype=object)
    for c in range(ncomp):
        for j, idx in enumerate(cells):
            if field_type == "vector":
                f = np.stack([zeros(shape)] * 3)
                f[(c, *idx)] = Fraction(1)
                step(vector_field=f, diffusion_flux=zeros(shape, 7), nu_dt_by_dx2=beta)
            else:
                f = zeros(shape)
                f[idx] = Fraction(1)
                step(field=f, diffusion_flux=zeros(shape, 7), nu_dt_by_dx2=beta)
            M[:, c * n + j] = f.ravel()
    tag = f"maxprinciple_{dim}d:{field_type}"
    neg = [(i, j) for i in range(M.shape[0]) for j in range(M.shape[1]) if M[i, j] < 0]
    if neg:
        i, j = neg[0]
        fails.append(Fail(f"{tag}:negative-weight", "diffusion step is not a convex averaging: negative matrix entry", row=i, col=j, value=M[i, j], beta=beta, source=beta_src))
    for i in range(M.shape[0]):
        s = sum(M[i, :].tolist(), Fraction(0))
        if s != 1:
            fails.append(Fail(f"{tag}:row-sum", "diffusion step weights of a cell do not sum to 1", row=i, total=s, beta=beta))
            break
    ring = [k for k, idx in enumerate(cells) if any(a == 0 or a == s - 1 for a, s in zip(idx, shape))]
    for c in range(ncomp):
        for k in ring:
            row = M[c * n + k, :]
            want = zeros((ncomp * n,))
            want[c * n + k] = Fraction(1)
            if np.any(row != want):
                fails.append(Fail(f"{tag}:ring-changed", "diffusion step changes a boundary-ring cell", cell=cells[k], component=c))
                break
    offdiag = sum(1 for i in range(M.shape[0]) for j in range(M.shape[1]) if i != j and M[i, j] != 0)
    if offdiag == 0 and not fails:
        from harness.interp import HarnessError

        raise HarnessError("C16 max principle vacuous")
    return CaseResult(fails=fails, states=M.shape[1], transitions=M.shape[1], traces=M.shape[1], outcome=f"{tag}:{beta_src}:{offdiag}", extra={"beta": str(beta), "offdiag_entries": offdiag})


CASES = {"dt": case_dt, "maxprinciple": case_maxprinciple}


def run(r) -> None:
    r.bind_model(only=["gen_diffusion_flux_pyst_kernel_2d", "gen_diffusion_flux_pyst_kernel_3d", "gen_elementwise_sum_pyst_kernel_2d", "gen_elementwise_sum_pyst_kernel_3d",
                       "gen_set_fixed_val_at_boundaries_pyst_kernel_2d", "gen_set_fixed_val_at_boundaries_pyst_kernel_3d"])
    quick = r.tier == "quick"
    cases = []
    for kind in KINDS:
        d = simcfg.dim_of(kind)
        for shape in GRIDS[d]:
            for dt in ("float64", "float32"):
                bigg = int(np.prod(shape)) > 20000
                if bigg:
                    if quick and kind in ("pt3ds",):
                        continue
                    cases.append(dict(kind=kind, shape=shape, dtype=dt, nus=NUS, cfls=CFLS if not quick else CFLS[:2]))
                else:
                    for nu in NUS:
                        cases.append(dict(kind=kind, shape=shape, dtype=dt, nus=[nu], cfls=CFLS))
    # fluid density is a configuration of the Navier-Stokes simulators (it must not enter the limits)
    for kind in ("ns2d", "ns3d"):
        d = simcfg.dim_of(kind)
        for shape in GRIDS[d][:2]:
            for dt in ("float64", "float32"):
                for rho in (8.0, 0.5):
                    cases.append(dict(kind=kind, shape=shape, dtype=dt, nus=NUS, cfls=CFLS[:2], rho=rho))
    # domain length (dx = x_range / nx is not 1 / nx)
    for kind in KINDS:
        d = simcfg.dim_of(kind)
        for dt in ("float64", "float32"):
            for xr in (2.5, 0.01):
                cases.append(dict(kind=kind, shape=GRIDS[d][1], dtype=dt, nus=NUS, cfls=CFLS[:2], x_range=xr))
    cases.sort(key=lambda c: -int(np.prod(c["shape"])))
    r.run_cases("dt-lattice", "dt", cases)
    mp = [dict(dim=2, field_type="scalar", beta_src=b) for b in ("limit", "returned")]
    mp += [dict(dim=3, field_type=ft, beta_src=b) for ft in ("scalar", "vector") for b in ("limit", "returned")]
    r.run_cases("max-principle", "maxprinciple", mp)
    r.bounds = {"nu": NUS, "cfl": CFLS, "prefactor": PREFACS, "velocity": VELS, "grids": GRIDS, "kinds": KINDS, "flow_density": [1.0, 8.0, 0.5], "x_range": [1.0, 2.5, 0.01], "full_product": not quick}
    r.extra["rule"] = "dt: one state per (class, grid, dtype, nu, cfl, velocity pattern, prefactor); max principle: one state per unit impulse of the exact diffusion matrix"
    r.assumptions = ["largest grid per dimension reuses one simulator object and sets kinematic_viscosity / cfl attributes"]
