"""C07 - spreading is the adjoint of interpolation and conserves force (and torque).

basis : for each enumerated marker set the interpolation matrix I (markers x cells; unit impulse in
        every cell and component) and the spreading matrix S (cells x markers; unit force per marker
        and component) are collected from the real numba closures; S dx^d == I^T entrywise, column
        sums of S dx^d are 1, Peskin first moments reproduce the marker positions, a component-c
        force touches only component c.
bfs   : histories over {spread(F1), spread(F2), spread(F1) again, start from a non-zero field}:
        spreading accumulates exactly the sum of the contributions.
"""

from __future__ import annotations

import itertools

import numpy as np

from harness import lagcomm
from harness.core import CaseResult, Fail

LD = np.longdouble
SETS = ["spread-out", "mixed", "one-cell", "identical"]


def marker_set(name, dim, shape, dx, dtype, seed=0):
    """(dim, 8) marker positions; axis 0 = x (last array axis). Cells at least 2 from the boundary."""
    n = lagcomm.N_BATCH
    ncell = [shape[dim - 1 - k] for k in range(dim)]
    mid = [c // 2 for c in ncell]
    sub = [0.0, 0.25, 0.5, 0.75, 0.13, 0.37, 0.61, 0.99]
    P = np.zeros((dim, n))
    if name == "spread-out":
        for m in range(n):
            for k in range(dim):
                cell = 2 + (3 * m + 2 * k + seed) % (ncell[k] - 5)
                P[k, m] = (cell + 0.5 + sub[(m + k) % 8]) * dx
    elif name == "mixed":
        # m0,m1 same cell; m2,m3 identical; m4,m5,m6 pairwise overlapping neighbours; m7 diagonal neighbour of m0
        cells = [mid, mid, [c + 2 for c in mid], [c + 2 for c in mid], [c - 2 for c in mid], [c - 1 for c in mid], [mid[0] - 2] + [c - 1 for c in mid[1:]], [c + 1 for c in mid]]
        subs = [0.1, 0.8, 0.5, 0.5, 0.0, 0.3, 0.6, 0.45]
        for m in range(n):
            for k in range(dim):
                P[k, m] = (cells[m][k] + 0.5 + (subs[m] + 0.07 * k) % 1.0) * dx
    elif name == "one-cell":
        for m in range(n):
            for k in range(dim):
                P[k, m] = (mid[k] + 0.5 + sub[(m + 3 * k) % 8]) * dx
    elif name == "identical":
        for m in range(n):
            for k in range(dim):
                P[k, m] = (mid[k] + 0.5 + 0.3 + 0.1 * k) * dx
    return P.astype(dtype)


def case_adjoint(dim, kernel, dtype, dx, ncomp, mset, seed, shift="default", n_markers=None):
    real_t = np.dtype(dtype).type
    shape = lagcomm.SHAPES[dim]
    eps = float(np.finfo(real_t).eps)
    comm = lagcomm.Comm(dim, kernel, real_t, dx, n_components=ncomp, shift=lagcomm.shift_value(shift, dx), n=n_markers or lagcomm.N_BATCH)
    n = comm.n
    # the marker sets are defined relative to the cells: they move with the grid origin
    P = (marker_set(mset, dim, shape, dx, np.float64, seed)[:, :n] + (comm.shift - dx / 2)).astype(real_t)
    Pc = P.copy()
    comm.locate(Pc)
    fails = []
    if not np.array_equal(Pc, P):
        fails.append(Fail(f"{kernel}:positions-modified", "the communicator modified the caller's marker-position array", dim=dim, set=mset))
        return CaseResult(fails=fails, states=1, transitions=1, traces=1, outcome="positions-modified")
    comm.locate(Pc)  # the same caller-owned array handed in twice, as for a static marker set
    ncell = int(np.prod(shape))
    fshape = shape if ncomp == 1 else (ncomp, *shape)
    lshape = (n,) if ncomp == 1 else (ncomp, n)
    vol = float(dx) ** dim
    # union of supports
    mask = np.zeros(shape, dtype=bool)
    for m in range(n):
        mask[np.ix_(*comm.window(m))] = True
    cells = np.argwhere(mask)
    tag = f"{kernel}:ncomp={ncomp}"
    # interpolation matrix: I[c_out, m, c_in, cell]
    Imat = np.zeros((ncomp, n, ncomp, ncell))
    trans = 0
    for c in range(ncomp):
        for idx in cells:
            idx = tuple(int(i) for i in idx)
            eul = np.zeros(fshape, dtype=real_t)
            eul[idx if ncomp == 1 else (c, *idx)] = 1
            lag = np.full(lshape, 7.0, dtype=real_t)
            comm.interpolate(lag, eul)
            trans += 1
            flat = int(np.ravel_multi_index(idx, shape))
            Imat[:, :, c, flat] = lag.reshape(ncomp, n)
    # spreading matrix: S[c_out, cell, c_in, m]
    Smat = np.zeros((ncomp, ncell, ncomp, n))
    for c in range(ncomp):
        for m in range(n):
            lag = np.zeros(lshape, dtype=real_t)
            lag[m if ncomp == 1 else (c, m)] = 1
            eul = np.zeros(fshape, dtype=real_t)
            comm.spread(eul, lag)
            trans += 1
            Smat[:, :, c, m] = eul.reshape(ncomp, ncell)
    scale = 1.0  # entries of I are O(1) (weights * dx^d)
    if not (np.all(np.isfinite(Smat)) and np.all(np.isfinite(Imat))):
        fails.append(Fail(f"{tag}:nonfinite", "non-finite entries in the interpolation / spreading matrices", dim=dim, set=mset))
        return CaseResult(fails=fails, states=1, transitions=trans, traces=trans, outcome="nonfinite")
    tol = 16 * eps * scale
    dev = np.abs(Smat * vol - np.transpose(Imat, (2, 3, 0, 1))).max()
    if dev > tol:
        fails.append(Fail(f"{tag}:adjoint", "spreading matrix times cell volume is not the transpose of the interpolation matrix", dim=dim, dtype=dtype, dx=dx, set=mset, dev=float(dev), tol=tol))
    # component separation
    for c_in in range(ncomp):
        for c_out in range(ncomp):
            if c_in != c_out and (np.any(Smat[c_out, :, c_in, :] != 0) or np.any(Imat[c_out, :, c_in, :] != 0)):
                fails.append(Fail(f"{tag}:component-mixing", "a component-c input reaches another component", c_in=c_in, c_out=c_out, dim=dim, set=mset))
    # nothing spread outside the union of supports
    outside = ~mask.ravel()
    if np.any(Smat[:, outside, :, :] != 0):
        fails.append(Fail(f"{tag}:outside-support", "spreading touched cells outside the four nearest cells per direction", dim=dim, set=mset))
    # force conservation and (Peskin) torque conservation
    for c in range(ncomp):
        col = Smat[c, :, c, :] * vol  # (cell, m)
        sums = col.sum(0)
        if np.abs(sums - 1).max() > 64 * eps:
            fails.append(Fail(f"{tag}:force-conservation", "grid integral of a spread unit force is not one", component=c, dim=dim, set=mset, grid_origin=shift, sums=sums.tolist()))
        if kernel == "peskin":
            grids = np.meshgrid(*[comm.shift + np.arange(s) * dx for s in shape], indexing="ij")
            for k in range(dim):
                coord = grids[dim - 1 - k].ravel()
                mom = (col * coord[:, None]).sum(0)
                if np.abs(mom - P[k].astype(np.float64)).max() > 64 * eps * (1 + np.abs(P[k]).max()):
                    fails.append(Fail(f"{tag}:torque-conservation", "first moment of a spread unit force differs from the marker position (Peskin)", axis=k, component=c, dim=dim, set=mset, grid_origin=shift))
    # amplitude alphabet: spreading and interpolation are linear, a force field scaled by 1e-20 / 1e12 must come out
    # as the scaled matrix product (no absolute thresholds)
    for amp in (1e-20, 1e12):
        lagF = ((np.sin(np.arange(int(np.prod(lshape))) * 1.3 + 0.4) + 0.2) * amp).reshape(lshape).astype(real_t)
        eul = np.zeros(fshape, dtype=real_t)
        comm.spread(eul, lagF)
        trans += 1
        want = np.einsum("acbm,bm->ac", Smat, lagF.reshape(ncomp, n).astype(np.float64))
        mag = np.einsum("acbm,bm->ac", np.abs(Smat), np.abs(lagF.reshape(ncomp, n).astype(np.float64)))
        if not np.all(np.abs(eul.reshape(ncomp, ncell).astype(np.float64) - want) <= 16 * eps * mag + 1e-300):
            fails.append(Fail(f"{tag}:amplitude", "spreading a force field scaled by a constant is not the scaled spreading of unit forces", amplitude=amp, dim=dim, set=mset))
    nz = int(np.count_nonzero(Smat))
    if nz == 0 and not fails:
        from harness.interp import HarnessError

        raise HarnessError("C07 vacuous: spreading matrix empty")
    overlaps = sum(1 for a, b in itertools.combinations(range(n), 2)
                   if all(abs(int(comm.nearest[k, a]) - int(comm.nearest[k, b])) < 4 for k in range(dim)))
    return CaseResult(fails=fails, states=ncomp * (len(cells) + n), transitions=trans, traces=trans, outcome=f"{dim}:{kernel}:{ncomp}:{mset}:{overlaps}",
                      extra={"overlapping_support_pairs": overlaps, "nonzero_entries": nz, "adjoint_dev": float(dev), "tol": tol})


def case_accumulate(dim, kernel, dtype, dx, ncomp, depth):
    """BFS over spreading histories: the target field after any history equals the initial field
    plus the sum of the individual contributions."""
    from harness import explore

    real_t = np.dtype(dtype).type
    shape = lagcomm.SHAPES[dim]
    eps = float(np.finfo(real_t).eps)
    n = lagcomm.N_BATCH
    fshape = shape if ncomp == 1 else (ncomp, *shape)
    lshape = (n,) if ncomp == 1 else (ncomp, n)
    sets = {"A": marker_set("mixed", dim, shape, dx, real_t), "B": marker_set("one-cell", dim, shape, dx, real_t)}
    forces = {k: (np.sin(np.arange(int(np.prod(lshape))) * (1.3 + i) + i) * (2.0 + i)).reshape(lshape).astype(real_t) for i, k in enumerate(sets)}
    events = ["A", "B", "A2", "dirty"]

    def build():
        return {"comm": lagcomm.Comm(dim, kernel, real_t, dx, n_components=ncomp), "field": np.zeros(fshape, dtype=real_t), "expected": np.zeros(fshape, dtype=np.float64), "mag": np.zeros(fshape, dtype=np.float64)}

    single = {}
    single_abs = {}
    for k in sets:
        c = lagcomm.Comm(dim, kernel, real_t, dx, n_components=ncomp)
        c.locate(sets[k].copy())
        f = np.zeros(fshape, dtype=real_t)
        c.spread(f, forces[k].copy())
        single[k] = f.astype(np.float64)
        fa = np.zeros(fshape, dtype=real_t)
        c.spread(fa, np.abs(forces[k]))
        single_abs[k] = fa.astype(np.float64)  # sum of |individual marker contributions| per cell (rounding scale)

    def apply_event(s, ev):
        if ev == "dirty":
            add = (np.cos(np.arange(int(np.prod(fshape))) * 0.7) * 3).reshape(fshape).astype(real_t)
            s["field"] += add
            s["expected"] += add.astype(np.float64)
            s["mag"] += np.abs(add)
            return "dirty"
        k = ev[0]
        s["comm"].locate(sets[k].copy())
        lf = forces[k].copy()
        s["comm"].spread(s["field"], lf)
        s["expected"] += single[k]
        s["mag"] += single_abs[k]
        return ("spread", np.array_equal(lf, forces[k]))

    def key(s):
        return explore.array_state_key(s["field"])

    def check(s, hist, ev, obs):
        fl = []
        tol = 8 * eps * (s["mag"] + 1e-300) * (len(hist) + 2)
        bad = ~(np.abs(s["field"].astype(np.float64) - s["expected"]) <= tol)
        if np.any(bad):
            fl.append(Fail(f"{kernel}:ncomp={ncomp}:accumulation", "spreading does not accumulate: field != previous field + spread contribution", history=list(hist) + [ev], dim=dim, cells=int(bad.sum())))
        if isinstance(obs, tuple) and not obs[1]:
            fl.append(Fail(f"{kernel}:ncomp={ncomp}:force-modified", "spreading modified the Lagrangian field", history=list(hist) + [ev]))
        return fl

    res = explore.bfs(build, events, apply_event, key, check, depth)
    return CaseResult(fails=res.fails, states=res.states, transitions=res.transitions, traces=res.transitions, outcome=f"acc:{dim}:{kernel}:{ncomp}:{res.states}", extra={"bfs_states": res.states})


def case_sequence(dim, kernel, dtype, ncomp, dx_order):
    """Construction history: communicators with the same marker count / components but different
    grid spacing (and kernel type) built one after the other in ONE process; each must still satisfy
    the adjoint identity <F, I u> = <S F, u> dx^d and reproduce constants."""
    real_t = np.dtype(dtype).type
    eps = float(np.finfo(real_t).eps)
    shape = lagcomm.SHAPES[dim]
    n = lagcomm.N_BATCH
    fails = []
    trans = 0
    fshape = shape if ncomp == 1 else (ncomp, *shape)
    lshape = (n,) if ncomp == 1 else (ncomp, n)
    for pos, dx in enumerate(dx_order):
        comm = lagcomm.Comm(dim, kernel, real_t, dx, n_components=ncomp)
        P = marker_set("spread-out", dim, shape, dx, real_t, pos)
        comm.locate(P.copy())
        u = (np.sin(np.arange(int(np.prod(fshape))) * 0.37 + pos) + 1.5).reshape(fshape).astype(real_t)
        F = (np.cos(np.arange(int(np.prod(lshape))) * 1.1 + pos) * 2).reshape(lshape).astype(real_t)
        Iu = np.zeros(lshape, dtype=real_t)
        comm.interpolate(Iu, u)
        SF = np.zeros(fshape, dtype=real_t)
        comm.spread(SF, F)
        trans += 2
        lhs = float((F.astype(np.float64) * Iu.astype(np.float64)).sum())
        rhs = float((SF.astype(np.float64) * u.astype(np.float64)).sum() * dx**dim)
        scale = float(np.abs(F).sum() * np.abs(u).max())
        if not abs(lhs - rhs) <= 64 * eps * scale:
            fails.append(Fail(f"{kernel}:ncomp={ncomp}:construction-history", "a communicator built after another one with a different grid spacing in the same process violates the adjoint identity", dim=dim, dx_sequence=list(dx_order), position=pos, lhs=lhs, rhs=rhs))
        const = np.full(fshape, 2.5, dtype=real_t)
        Ic = np.zeros(lshape, dtype=real_t)
        comm.interpolate(Ic, const)
        if not np.abs(Ic - 2.5).max() <= 64 * eps * 2.5:
            fails.append(Fail(f"{kernel}:ncomp={ncomp}:construction-history-constant", "a communicator built after another one with a different grid spacing does not interpolate a constant to itself", dim=dim, dx_sequence=list(dx_order), position=pos, got=float(Ic.ravel()[0])))
    return CaseResult(fails=fails, states=len(dx_order), transitions=trans, traces=trans, outcome=f"seq:{dim}:{kernel}:{ncomp}:{dx_order}")


CASES = {"adjoint": case_adjoint, "accumulate": case_accumulate, "sequence": case_sequence}


def run(r) -> None:
    quick = r.tier == "quick"
    cases = []
    for dim in (2, 3):
        for kernel in ("cosine", "peskin"):
            for dt in ("float64", "float32"):
                for dx in (lagcomm.DXS[:1] if quick else lagcomm.DXS):
                    for ncomp in (1, dim):
                        for ms in SETS:
                            cases.append(dict(dim=dim, kernel=kernel, dtype=dt, dx=dx, ncomp=ncomp, mset=ms, seed=r.seed))
    # grids whose first cell centre is not at dx / 2 (node-centred, far-offset origin)
    for dim in (2, 3):
        for kernel in ("cosine", "peskin"):
            for dt in (("float64",) if quick else ("float64", "float32")):
                for sh in ("zero", "far"):
                    for ms in SETS:
                        cases.append(dict(dim=dim, kernel=kernel, dtype=dt, dx=lagcomm.DXS[1], ncomp=dim, mset=ms, seed=r.seed, shift=sh))
    # spacings larger than one
    for dim in (2, 3):
        for kernel in ("cosine", "peskin"):
            for dx in lagcomm.LARGE_DXS:
                for ms in ("mixed", "spread-out"):
                    cases.append(dict(dim=dim, kernel=kernel, dtype="float64", dx=dx, ncomp=dim, mset=ms, seed=r.seed))
    # marker-count alphabet, in particular counts EQUAL to the number of components (a (ncomp, N) field is then
    # square and a layout slip goes unnoticed by shape checks) and a single marker
    for dim in (2, 3):
        for kernel in ("cosine", "peskin"):
            for dt in ("float64", "float32"):
                for nm in (1, 2, 3):
                    for ms in ("mixed", "spread-out"):
                        cases.append(dict(dim=dim, kernel=kernel, dtype=dt, dx=lagcomm.DXS[0], ncomp=dim, mset=ms, seed=r.seed, n_markers=nm))
    r.run_cases("adjoint-basis", "adjoint", cases)
    acc = [dict(dim=dim, kernel=k, dtype=dt, dx=lagcomm.DXS[0], ncomp=nc, depth=3 if quick else 6)
           for dim in (2, 3) for k in ("cosine", "peskin") for dt in ("float64", "float32") for nc in (1, dim)]
    r.run_cases("accumulation-bfs", "accumulate", acc)
    seqs = [dict(dim=dim, kernel=k, dtype=dt, ncomp=nc, dx_order=list(o)) for dim in (2, 3) for k in ("cosine", "peskin") for dt in ("float64", "float32") for nc in (1, dim)
            for o in itertools.permutations(lagcomm.DXS, 2)]
    r.run_cases("construction-sequences", "sequence", seqs)
    r.bounds = {"marker_sets": SETS, "batch": lagcomm.N_BATCH, "dx": lagcomm.DXS[:1] if quick else lagcomm.DXS, "components": "1 and dim", "large_dx": lagcomm.LARGE_DXS, "marker_counts": [1, 2, 3, lagcomm.N_BATCH], "grid_origins": lagcomm.SHIFTS, "history_depth": 3 if quick else 6}
    r.extra["rule"] = "adjoint: one state per unit impulse (cell x component) and per unit force (marker x component); accumulation: BFS states = bytes of the target field"
    r.assumptions = ["numba closures (fastmath) driven directly; entries compared to 16 eps"]
