"""C11 - fast-diagonalisation solver solves the discrete Neumann Poisson problem.

basis : every unit impulse (and the constant vector) on every enumerated shape / spacing / dtype is
        solved by the real 2-D and 3-D solvers; the dense second-order Neumann negative Laplacian A,
        assembled independently with the ghost-cell reflection rule, must satisfy A u = f - mean(f),
        mean(u) = 0, u real and of the working precision.
bfs   : histories of {solve(a), solve(b), vector solve, poison(spectral buffer)} on one solver.
"""

from __future__ import annotations

import itertools

import numpy as np

from harness import explore
from harness.core import CaseResult, Fail

DXS = [1.0, 0.1, 1.0 / 3.0]
EXTREME_DXS = [1e-3, 250.0]
AMPLITUDES = [1e-8, 1e-20, 1e10]


def neumann_matrix(shape, dx):
    """Dense negative Laplacian with homogeneous Neumann conditions at the domain faces
    (ghost value = mirror of the first/last cell), Kronecker sum over the axes (C order)."""
    mats = []
    for n in shape:
        a = np.zeros((n, n))
        for i in range(n):
            for j in (i - 1, i + 1):
                jj = min(max(j, 0), n - 1)  # reflection: ghost cell takes the boundary cell's value
                a[i, i] += 1.0
                a[i, jj] -= 1.0
        mats.append(a / dx**2)
    total = np.zeros((int(np.prod(shape)),) * 2)
    for k, a in enumerate(mats):
        m = np.eye(1)
        for q, n in enumerate(shape):
            m = np.kron(m, a if q == k else np.eye(n))
        total += m
    return total


def _mk(shape, dx, dtype):
    import sopht.numeric.eulerian_grid_ops as spne

    if len(shape) == 2:
        return spne.FastDiagPoissonSolver2D(grid_size_y=shape[0], grid_size_x=shape[1], dx=dx, real_t=dtype)
    return spne.FastDiagPoissonSolver3D(grid_size_z=shape[0], grid_size_y=shape[1], grid_size_x=shape[2], dx=dx, real_t=dtype)


def _cond(shape):
    """Condition number of the Neumann Laplacian on its range (analytic eigenvalues; independent of dx)."""
    lmin = min(4 * np.sin(np.pi / (2 * n)) ** 2 for n in shape)
    lmax = sum(4 * np.sin(np.pi * (n - 1) / (2 * n)) ** 2 for n in shape)
    return lmax / lmin


def _tol(dtype, shape):
    # a backward-stable spectral solve leaves a residual of a few eps * cond(A) * |f| (measured on the unchanged
    # tree: <= 4 eps cond over all enumerated shapes, spacings and precisions); 64 leaves a factor 16
    return 64 * np.finfo(dtype).eps * _cond(shape)


def _modes(shape):
    """Multi-indices of the tensor-product cosine modes used as right-hand sides: ALL of them on small grids,
    otherwise the three lowest and the highest wave number per axis (and all their products)."""
    n = int(np.prod(shape))
    per_axis = [range(m) if n <= 160 else sorted({0, 1, 2, 3, m - 1} & set(range(m))) for m in shape]
    return [k for k in itertools.product(*per_axis) if any(k)]


def case_basis(shape, dx, dtype):
    dtype = np.dtype(dtype).type
    shape = tuple(shape)
    dim = len(shape)
    n = int(np.prod(shape))
    fails = []
    tag = f"dim={dim}"
    solver = _mk(shape, dx, dtype)
    A = neumann_matrix(shape, dx)
    tol = _tol(dtype, shape)
    cols = list(range(n)) if n <= 160 else list(range(0, n, max(1, n // 97))) + [n - 1]
    worst = 0.0
    trans = 0
    ctl = None
    # second basis: the eigenvectors of the operator (cosine modes) - a solver that drops or mis-scales ONE mode
    # leaves an O(1) residual there, while its trace in a unit impulse is O(1/n)
    # amplitude alphabet: the solve is LINEAR, so a right-hand side scaled by 1e-8 / 1e-20 / 1e10 must be solved to the
    # same relative accuracy (no absolute thresholds anywhere)
    rhs_list = [("impulse", j) for j in cols] + [("const", 0), ("dense", 0)] + [("mode", k) for k in _modes(shape)] + [("scaled", a) for a in AMPLITUDES]
    for kind, j in rhs_list:
        f = np.zeros(n, dtype=dtype)
        if kind == "impulse":
            f[j] = 1
        elif kind == "mode":
            m = np.ones(shape)
            for ax, (ka, na) in enumerate(zip(j, shape)):
                m = m * np.cos(np.pi * ka * (np.indices(shape)[ax] + 0.5) / na)
            f[:] = m.ravel().astype(dtype)
        elif kind == "const":
            f[:] = 2.5
        elif kind == "scaled":
            f[:] = ((((np.arange(n) * 7) % 11) - 5) / 3.0 * j).astype(dtype)
        else:
            f[:] = (((np.arange(n) * 7) % 11) - 5) / 3.0
        f = f.reshape(shape)
        f0 = f.copy()
        u = np.full(shape, np.nan, dtype=dtype)
        solver.solve(solution_field=u, rhs_field=f)
        trans += 1
        if u.dtype != dtype or np.iscomplexobj(u):
            fails.append(Fail(f"{tag}:dtype", "solution is not a real field of the working precision", dtype=str(u.dtype)))
        if not np.array_equal(f, f0):
            fails.append(Fail(f"{tag}:rhs-modified", "solve() modified its right-hand side"))
        if not np.all(np.isfinite(u)):
            fails.append(Fail(f"{tag}:nonfinite", "solution contains non-finite values", shape=shape, dx=dx, dtype=dtype, rhs=kind, index=j))
            continue
        uu = u.astype(np.float64).ravel()
        target = f0.astype(np.float64).ravel()
        target = target - target.mean()
        res = np.abs(A @ uu - target).max()
        fscale = max(np.abs(f0).max(), 1e-300)
        if kind == "dense":
            ctl = (uu, target, fscale)
            u_p = np.full(shape, np.nan, dtype=dtype)
            solver.solve(u_p, f0.copy())  # positional call in the documented order (solution, right-hand side)
            trans += 1
            if not np.array_equal(u_p, u):
                fails.append(Fail(f"{tag}:positional-call", "solve(solution, rhs) called positionally differs from the keyword call", shape=shape, dtype=dtype))
        # mean(u) compared with the size of u (||u|| ~ dx^2 n^2 ||f||)
        uscale = fscale * dx**2 * max(shape) ** 2
        worst = max(worst, res / (tol * fscale))
        if res > tol * fscale:
            fails.append(Fail(f"{tag}:residual", "A u != f - mean(f) for the second-order Neumann Laplacian", shape=shape, dx=dx, dtype=dtype, rhs=kind, index=j, residual=res, tol=tol * fscale))
        if abs(uu.mean()) > tol * uscale:
            fails.append(Fail(f"{tag}:mean", "solution does not have zero mean", shape=shape, dx=dx, dtype=dtype, rhs=kind, index=j, mean=float(uu.mean()), tol=tol * uscale))
    # negative control: a solution of the Dirichlet-like (unmodified boundary rows) problem must be rejected
    A_bad = A.copy()
    A_bad[0, 0] += 1.0 / dx**2
    if ctl is not None and not fails and np.abs(A_bad @ ctl[0] - ctl[1]).max() <= tol * ctl[2]:
        from harness.interp import HarnessError

        raise HarnessError("C11 control: tolerance cannot distinguish a modified boundary row")
    return CaseResult(fails=fails, states=len(rhs_list), transitions=trans, traces=trans, outcome=f"{shape}:{dtype.__name__}:{worst > 0}",
                      extra={"worst_residual_over_tol": worst, "columns": len(cols), "of": n})


def case_history(shape, dx, dtype, depth):
    dtype = np.dtype(dtype).type
    shape = tuple(shape)
    dim = len(shape)
    n = int(np.prod(shape))
    A = neumann_matrix(shape, dx)
    tol = _tol(dtype, shape)
    tag = f"hist:dim={dim}"
    rhs = {}
    r = np.zeros(n, dtype=dtype); r[0] = 1; rhs["a"] = r.reshape(shape)
    r = np.zeros(n, dtype=dtype); r[n - 1] = -3; rhs["b"] = r.reshape(shape)
    rhs["big"] = ((((np.arange(n) * 5) % 7) - 3) * 1e6).astype(dtype).reshape(shape)
    rhs["zero"] = np.zeros(shape, dtype=dtype)
    events = [("solve", "a"), ("solve", "b"), ("solve", "big"), ("solve", "zero"), ("poison", "nan"), ("poison", "1e30")]
    if dim == 3:
        events.insert(3, ("vsolve", ""))
    vr = np.stack([rhs["b"], rhs["zero"], rhs["a"]]) if dim == 3 else None

    class S:
        def __init__(self):
            self.solver = _mk(shape, dx, dtype)
            self.u = np.zeros(shape, dtype=dtype)
            self.vu = np.zeros((3, *shape), dtype=dtype) if dim == 3 else None

    def apply_event(s, ev):
        k, a = ev
        if k == "solve":
            s.solver.solve(solution_field=s.u, rhs_field=rhs[a].copy())
            return ("solve", a)
        if k == "vsolve":
            s.solver.vector_field_solve(solution_vector_field=s.vu, rhs_vector_field=vr.copy())
            ok = True
            tmp = np.zeros(shape, dtype=dtype)
            for c in range(3):
                s.solver.solve(solution_field=tmp, rhs_field=vr[c].copy())
                ok = ok and tmp.tobytes() == s.vu[c].tobytes()
            return ("vsolve", ok)
        s.solver.spectral_field_buffer[...] = float(a)
        return ("poison", a)

    def key(s):
        arrs = [v for v in vars(s.solver).values() if isinstance(v, np.ndarray)]
        return explore.array_state_key(*arrs, s.u, *([s.vu] if s.vu is not None else []))

    def resid(u, f):
        t = f.astype(np.float64).ravel()
        t = t - t.mean()
        return np.abs(A @ u.astype(np.float64).ravel() - t).max() / max(np.abs(f).max(), 1e-300)

    def check(s, hist, ev, obs):
        fl = []
        h = [list(e) for e in hist] + [list(ev)]
        if obs[0] == "solve":
            if not np.all(np.isfinite(s.u)) or resid(s.u, rhs[obs[1]]) > tol:
                fl.append(Fail(f"{tag}:history-dependence", "solve() result depends on earlier calls / spectral buffer contents", history=h))
        elif obs[0] == "vsolve":
            if not obs[1]:
                fl.append(Fail(f"{tag}:vector-solve", "vector solve differs from three scalar solves", history=h))
            for c, k in enumerate(("b", "zero", "a")):
                if not np.all(np.isfinite(s.vu[c])) or resid(s.vu[c], rhs[k]) > tol:
                    fl.append(Fail(f"{tag}:vector-solve-value", "vector solve component does not solve its Poisson problem", history=h, component=c))
        return fl

    res = explore.bfs(S, events, apply_event, key, check, depth)
    return CaseResult(fails=res.fails, states=res.states, transitions=res.transitions, traces=res.transitions, outcome=f"hist:{shape}:{res.states}",
                      extra={"bfs_states": res.states, "depth": res.depth_completed})


def case_sequence(shape, order, dtype):
    """Construction history: solvers with the same shape / precision but different spacing built one
    after the other in ONE process (with an unrelated solver in between); each must solve its own problem."""
    dtype = np.dtype(dtype).type
    shape = tuple(shape)
    fails = []
    n = int(np.prod(shape))
    seq = [DXS[i] for i in order]
    for k, dx in enumerate(seq):
        solver = _mk(shape, dx, dtype)
        if k == 0:
            _mk(tuple(reversed(shape)), dx * 0.5, dtype)
        A = neumann_matrix(shape, dx)
        f = ((((np.arange(n) * 7 + k) % 11) - 5) / 3.0).astype(dtype).reshape(shape)
        u = np.zeros(shape, dtype=dtype)
        solver.solve(solution_field=u, rhs_field=f.copy())
        t = f.astype(np.float64).ravel()
        t = t - t.mean()
        res = np.abs(A @ u.astype(np.float64).ravel() - t).max() if np.all(np.isfinite(u)) else np.inf
        if not res <= _tol(dtype, shape) * np.abs(f).max():
            fails.append(Fail(f"dim={len(shape)}:construction-history", "a solver built after another solver (same shape, different spacing) in the same process does not solve its Poisson problem", shape=shape, dx_sequence=seq, position=k, residual=float(res)))
    return CaseResult(fails=fails, states=len(seq), transitions=len(seq), traces=len(seq), outcome=f"seq:{shape}:{order}")


CASES = {"basis": case_basis, "history": case_history, "sequence": case_sequence}


def run(r) -> None:
    quick = r.tier == "quick"
    s2 = range(2, 6) if quick else range(2, 10)
    s3 = range(2, 4) if quick else range(2, 7)
    shapes = list(itertools.product(s2, s2)) + list(itertools.product(s3, s3, s3))
    shapes += [(2, 64), (64, 3), (33, 2, 5), (7, 6), (4, 3, 5)]
    # one LONG axis next to short ones (the lowest non-constant mode is close to the null mode in single precision)
    shapes += [(5, 64), (64, 6), (4, 4, 60), (2, 3, 64), (64, 2, 2)]
    if not quick:
        shapes += [(64, 64), (17, 40), (20, 9, 12), (2, 2, 64)]
    cases = []
    for sh in shapes:
        for dt in ("float64", "float32"):
            dxs = DXS if (not quick or int(np.prod(sh)) <= 30) else [DXS[(sum(sh) + r.seed) % 3]]
            for dx in dxs:
                cases.append(dict(shape=sh, dx=dx, dtype=dt))
    # spacings far from 1 (a scale factor that cancels at O(1) spacings must show)
    for sh in [(3, 4), (5, 2), (7, 6), (2, 3, 4), (4, 3, 5), (3, 3, 3)]:
        for dt in ("float64", "float32"):
            for dx in EXTREME_DXS:
                cases.append(dict(shape=sh, dx=dx, dtype=dt))
    cases.sort(key=lambda c: -int(np.prod(c["shape"])))
    r.run_cases("basis", "basis", cases)
    depth = 3 if quick else 5
    hist = [dict(shape=sh, dx=DXS[(r.seed + len(sh)) % 3], dtype=dt, depth=depth) for sh in ((3, 4), (5, 2), (2, 3, 4), (3, 2, 2)) for dt in ("float64", "float32")]
    r.run_cases("history", "history", hist)
    seqs = [dict(shape=sh, order=list(o), dtype=dt) for sh in ((4, 6), (3, 4, 5), (4, 4, 4)) for o in itertools.permutations(range(3)) for dt in ("float64", "float32")]
    r.run_cases("construction-sequences", "sequence", seqs)
    r.bounds = {"shapes": f"{{{s2.start}..{s2.stop-1}}}^2, {{{s3.start}..{s3.stop-1}}}^3 + " + str([s for s in shapes if max(s) > 5][:9]), "spacings": DXS + EXTREME_DXS, "rhs_amplitudes": [1.0] + AMPLITUDES, "history_depth": depth}
    r.extra["rule"] = "basis: one state per right-hand side (all unit impulses + all cosine eigenmodes + constant + dense) per shape/spacing/dtype; history: BFS states = bytes of all solver arrays"
    r.assumptions = ["LAPACK eigen-decomposition treated as opaque; residual tolerance 64 eps cond(A) ||f|| with the analytic condition number of the Neumann Laplacian"]
