"""C13 - every grid kernel computes its documented formula on its documented region only.

lattice over every public generator x option combination (field_type, reset_ghost_zone, width, filter
type/order, blend width) x dtype x shapes from the minimal admissible size up (non-cubic) x binding
kind {contiguous, every-other-element strided, offset slice of a larger array, Fortran-ordered} x
value pattern {dense, impulses}.  Outputs are pre-filled with a NaN-payload sentinel.  Oracle:
closed-form NumPy reference on the documented region (harness/kernelspec.py); everything else -
rest of the outputs, all inputs - compared as raw bytes with the pre-state.  Quick tier: interpreter
back end (bound to the generated code by conformance replay); thorough tier adds the JIT back end.
"""

from __future__ import annotations

import numpy as np

from harness import kernelspec, registry, shim
from harness.core import CaseResult, Fail

BINDINGS = ["contiguous", "strided", "offset", "fortran"]
PATTERNS = ["dense", "impulse", "ties"]


def _values(shape, k, kind, pattern, scale=1.0):
    n = int(np.prod(shape))
    i = np.arange(n, dtype=np.float64)
    if pattern == "ties":
        # small integers: neighbouring sums hit exactly zero (upwind ties), level sets hit exactly
        # +-blend width (x scale), products and sums are exact
        v = (((i * 7 + 3 * k) % 5) - 2.0) * np.where(((i // 5 + k) % 3) == 0, -1.0, 1.0)
    elif pattern == "impulse":
        v = np.zeros(n)
        v[(n // 2 + 3 * k) % n] = 1.5 - 0.5 * (k % 3)
        v[(n // 3 + k) % n] = -2.0
    else:
        v = np.sin(0.71 * i + 1.3 * k) * 1.7 + 0.31 * (((i * 5 + k) % 7) - 3)
        v = np.where(np.abs(v) < 0.05, 0.4, v)
    if kind == "s+":
        v = np.abs(v) / (1.0 + np.abs(v))
    return (v * scale).reshape(shape)


def _bind(values, dtype, binding):
    """Return (view to pass, base array or None)."""
    if binding == "contiguous":
        a = np.ascontiguousarray(values.astype(dtype))
        return a, a
    if binding == "fortran":
        a = np.asfortranarray(values.astype(dtype))
        return a, a
    if binding == "strided":
        big = np.full(tuple(2 * s for s in values.shape), 77.0, dtype=dtype)
        v = big[tuple(slice(None, None, 2) for _ in values.shape)]
        v[...] = values.astype(dtype)
        return v, big
    if binding == "offset":
        big = np.full(tuple(s + 3 for s in values.shape), -55.0, dtype=dtype)
        v = big[tuple(slice(1, 1 + s) for s in values.shape)]
        v[...] = values.astype(dtype)
        return v, big
    raise KeyError(binding)


def _sentinel(arr):
    """NaN with payload (bit pattern survives byte comparison)."""
    if arr.dtype in (np.float32, np.complex64):
        nan = np.array([0x7FC00ABC], dtype=np.uint32).view(np.float32)[0]
    else:
        nan = np.array([0x7FF8000000000ABC], dtype=np.uint64).view(np.float64)[0]
    if np.iscomplexobj(arr):
        arr.real[...] = nan
        arr.imag[...] = nan
    else:
        arr[...] = nan


def shapes_for(name, opts):
    d = registry.gen_dim(name)
    if "eno3" in name:
        m = 5
    elif "width" in opts:
        m = max(3, 2 * opts["width"] + 1)
    elif "filter_order" in opts:
        m = 3
    elif any(k in name for k in ("elementwise", "set_fixed_val", "add_fixed_val", "brinkmann", "char_func")):
        m = 2
    else:
        m = 3
    if d == 2:
        return [(m, m), (m, m + 1), (m + 2, m), (m + 1, m + 2)]
    return [(m, m, m), (m, m + 1, m + 2), (m + 2, m, m + 1), (m + 1, m + 2, m)]


def long_shapes_for(name, opts):
    """One LONG axis (each axis in turn; beyond any plausible block / slab / chunk size of a wrapper), the others
    minimal: used with the contiguous binding and the dense pattern only."""
    m = shapes_for(name, opts)[0][0]
    d = registry.gen_dim(name)
    if opts.get("fixed") or opts.get("length") or opts.get("grid") == "offset":
        return []
    if d == 2:
        return [(70, m), (m, 70)]
    return [(36, m, m), (m, 36, m), (m, m, 36)]


def case_generator(name, opts, dtype, backend):
    real_t = np.dtype(dtype).type
    eps = float(np.finfo(real_t).eps)
    cdt = np.complex64 if real_t == np.float32 else np.complex128
    sp = kernelspec.spec(name, opts)
    d = registry.gen_dim(name)
    shim.set_backend(backend)
    fails = []
    states = trans = 0
    tag = f"{name}:{','.join(f'{k}={v}' for k, v in sorted(opts.items()) if k not in ('buffers', 'midstep'))}"
    outcomes = 0
    try:
        other_t = np.float32 if real_t == np.float64 else np.float64
        short = shapes_for(name, opts)
        for shape in short + long_shapes_for(name, opts):
            # construction history: the same generator is first instantiated for the OTHER precision and
            # a different thread setting (a cache keyed too coarsely would hand that kernel back)
            registry.instantiate(name, opts, other_t, num_threads=2, shape=shape)
            fn, aux = registry.instantiate(name, opts, real_t, num_threads=False, shape=shape)
            closed = {k: aux[k] for k in sp.get("closed_over", [])}
            import inspect

            prm = list(inspect.signature(fn).parameters.values())
            positional_ok = bool(prm) and all(q.kind == q.POSITIONAL_OR_KEYWORD for q in prm)  # raw generated kernels are keyword-only
            for binding in (BINDINGS if shape in short else BINDINGS[:1]):
                # the SAME array objects are passed for every pattern (re-filled in place): a kernel object
                # is called repeatedly with identical scratch / output arrays, as the simulators do
                views, bases = {}, {}
                for pi, pattern in enumerate(PATTERNS if shape in short else PATTERNS[:1]):
                    # scalar-argument alphabet (value x type of the object passed): all of it on the dense /
                    # contiguous combination, cycled over the others
                    if not sp["scalars"]:
                        variants = [kernelspec.SCALAR_VARIANTS[0]]
                    elif pattern == "dense" and binding == "contiguous":
                        variants = kernelspec.SCALAR_VARIANTS
                    if positional_ok and pattern == "dense":
                        variants = list(variants) + ["dyadic:float:positional"]
                    else:
                        variants = [kernelspec.SCALAR_VARIANTS[(pi + 3 * BINDINGS.index(binding)) % len(kernelspec.SCALAR_VARIANTS)]]
                    for variant in variants:
                        s_pass, s_mean = kernelspec.scalar_variant(sp["scalars"], variant, real_t)
                        A = {}
                        for k, (arg, kind, role) in enumerate(sp["arrays"]):
                            shp = shape if kind in ("s", "s+", "c") else (d, *shape)
                            vals = _values(shp, k, kind, pattern, sp.get("input_scale", 1.0))
                            if kind == "c":
                                vals = vals + 1j * _values(shp, k + 7, kind, pattern)
                            if arg not in views:
                                v, base = _bind(vals, cdt if kind == "c" else real_t, binding)
                                views[arg], bases[arg] = v, base
                            else:
                                v = views[arg]
                                v[...] = vals.astype(v.dtype)
                            if role == "out":
                                _sentinel(v)
                            A[arg] = v.astype(np.complex128 if kind == "c" else np.float64).copy()
                        base_pre = {a: b.copy() for a, b in bases.items()}
                        view_pre = {a: v.copy() for a, v in views.items()}
                        for b in closed.values():
                            b[...] = np.nan  # scratch the generator closed over: contents must not matter
                        if variant.endswith(":positional"):
                            # the wrapper closures have a documented parameter order: a positional call must mean the same
                            fn(*[views[a] if a in views else s_pass[a] for a in kernelspec.positional_order(name, opts, sp)])
                        else:
                            fn(**views, **s_pass)
                        trans += 1
                        expected = sp["ref"](A, s_mean, aux)
                        for arg, kind, role in sp["arrays"]:
                            states += 1
                            got = views[arg]
                            ctx = dict(generator=name, opts=opts, dtype=dtype, shape=shape, binding=binding, pattern=pattern, scalars=variant, argument=arg, backend=backend)
                            # the parent array around a strided / offset view must be untouched
                            if binding in ("strided", "offset"):
                                b_now = bases[arg].copy()
                                b_was = base_pre[arg].copy()
                                sel = tuple(slice(None, None, 2) for _ in got.shape) if binding == "strided" else tuple(slice(1, 1 + s) for s in got.shape)
                                b_now[sel] = 0
                                b_was[sel] = 0
                                if b_now.tobytes() != b_was.tobytes():
                                    fails.append(Fail(f"{tag}:wrote-outside-view", "kernel wrote outside the array view it was given", **ctx))
                            if arg not in expected:
                                if got.tobytes() != view_pre[arg].tobytes():
                                    fails.append(Fail(f"{tag}:input-modified", "an input array was modified", **ctx))
                                continue
                            exp, mask = expected[arg]
                            mask = np.broadcast_to(mask, got.shape)
                            if np.ascontiguousarray(got[~mask]).tobytes() != np.ascontiguousarray(view_pre[arg][~mask]).tobytes():
                                fails.append(Fail(f"{tag}:outside-region", "cells outside the documented output region were modified", cells=int((got[~mask] != view_pre[arg][~mask]).sum()), **ctx))
                            g = got[mask].astype(np.complex128 if kind == "c" else np.float64)
                            e = np.asarray(exp)[mask]
                            in_mag = max([float(np.abs(A[a_]).max()) for a_, _k, r_ in sp["arrays"] if r_ != "out"] + [0.0])
                            mag = 1.0 + in_mag**2 + float(np.abs(e).max() if e.size else 0)
                            tol = 64 * eps * mag
                            if not np.isfinite(tol):
                                from harness.interp import HarnessError

                                raise HarnessError("C13: non-finite tolerance")
                            if g.size and pattern == "dense" and binding == "contiguous" and not variant.startswith("large"):
                                # negative control: the comparison must see a 0.1 % error in one cell
                                e_bad = e.copy()
                                e_bad[e_bad.size // 2] += 1e-3 * (1 + abs(e_bad[e_bad.size // 2]))
                                if np.all(np.isfinite(g)) and not np.abs(g - e_bad).max() > tol:
                                    from harness.interp import HarnessError

                                    raise HarnessError(f"C13 control: tolerance {tol} cannot see a 0.1% error ({name})")
                            if g.size and (not np.all(np.isfinite(g)) or np.abs(g - e).max() > tol):
                                bad = ~np.isfinite(g) | (np.abs(g - e) > tol)
                                i = int(np.argmax(bad))
                                fails.append(Fail(f"{tag}:value", "kernel output differs from its documented closed-form value on its output region", got=complex(g[i]) if kind == "c" else float(g[i]), want=complex(e[i]) if kind == "c" else float(e[i]), tol=tol, **ctx))
                            outcomes += int(mask.any())
    finally:
        shim.set_backend("interp")
    return CaseResult(fails=fails, states=states, transitions=trans, traces=trans, outcome=f"{tag}:{dtype}:{backend}:{outcomes > 0}")


# (not the complex product: its two-part assignment is not documented as safe in place and the solvers never call it so)
ELEMENTWISE = ("elementwise_sum", "elementwise_saxpby", "add_fixed_val", "elementwise_copy", "brinkmann_penalise", "char_func_from_level_set")


def case_inplace(name, opts, dtype):
    """Cell-by-cell kernels called IN PLACE: the output array is also one of the inputs (same array object),
    which is how the simulators use them (field = field + flux).  Every input of the output's kind is aliased
    in turn; the result must be the documented closed form of the values held before the call."""
    real_t = np.dtype(dtype).type
    eps = float(np.finfo(real_t).eps)
    cdt = np.complex64 if real_t == np.float32 else np.complex128
    sp = kernelspec.spec(name, opts)
    d = registry.gen_dim(name)
    shim.set_backend("interp")
    fails = []
    states = trans = 0
    tag = f"{name}:{','.join(f'{k}={v}' for k, v in sorted(opts.items()))}"
    outs = [(a, k) for a, k, r in sp["arrays"] if r in ("out", "inout")]
    for shape in shapes_for(name, opts)[1:3]:
        fn, aux = registry.instantiate(name, opts, real_t, num_threads=False, shape=shape)
        for out_arg, out_kind in outs:
            for in_arg, in_kind, role in sp["arrays"]:
                if role != "in" or in_kind != out_kind:
                    continue
                views, A = {}, {}
                for k, (arg, kind, _r) in enumerate(sp["arrays"]):
                    shp = shape if kind in ("s", "s+", "c") else (d, *shape)
                    vals = _values(shp, k, kind, "dense", sp.get("input_scale", 1.0))
                    if kind == "c":
                        vals = vals + 1j * _values(shp, k + 7, kind, "dense")
                    views[arg] = np.ascontiguousarray(vals.astype(cdt if kind == "c" else real_t))
                views[out_arg] = views[in_arg]  # the SAME array object
                for arg, kind, _r in sp["arrays"]:
                    A[arg] = views[arg].astype(np.complex128 if kind == "c" else np.float64).copy()
                s_pass, s_mean = kernelspec.scalar_variant(sp["scalars"], "generic:float", real_t)
                fn(**views, **s_pass)
                trans += 1
                exp, mask = sp["ref"](A, s_mean, aux)[out_arg]
                got = views[out_arg].astype(np.complex128 if out_kind == "c" else np.float64)
                mag = 1.0 + max(float(np.abs(A[a]).max()) for a in A) ** 2 + float(np.abs(exp).max())
                states += 1
                if not np.all(np.abs(got - exp)[np.broadcast_to(mask, got.shape)] <= 64 * eps * mag):
                    fails.append(Fail(f"{tag}:in-place", "kernel called with its output array also bound to an input does not produce its documented value", output=out_arg, aliased_input=in_arg, shape=shape, dtype=dtype))
                for arg, kind, r_ in sp["arrays"]:
                    if r_ == "in" and arg != in_arg and views[arg].astype(np.complex128 if kind == "c" else np.float64).tobytes() != A[arg].tobytes():
                        fails.append(Fail(f"{tag}:in-place:input-modified", "another input array was modified", argument=arg))
    return CaseResult(fails=fails, states=states, transitions=trans, traces=trans, outcome=f"inplace:{tag}:{dtype}:{states > 0}")


def case_transient(name, opts, dtype):
    """Object-identity history: ONE kernel object is applied in turn to three different output fields that are
    handed in as temporary view objects (interior view of a padded array, created in the call expression, gone
    after the call) while the other arrays persist.  Every call must write the field it was given."""
    real_t = np.dtype(dtype).type
    eps = float(np.finfo(real_t).eps)
    cdt = np.complex64 if real_t == np.float32 else np.complex128
    sp = kernelspec.spec(name, opts)
    d = registry.gen_dim(name)
    shim.set_backend("interp")
    fails = []
    tag = f"{name}:{','.join(f'{k}={v}' for k, v in sorted(opts.items()) if k not in ('buffers', 'midstep'))}"
    shape = shapes_for(name, opts)[3]
    fn, aux = registry.instantiate(name, opts, real_t, num_threads=False, shape=shape)
    primary, pkind, prole = next((a, k, r) for a, k, r in sp["arrays"] if r in ("inout", "out"))
    sl_s = tuple(slice(1, -1) for _ in shape)
    pshape = tuple(n + 2 for n in shape) if pkind in ("s", "c") else (d, *[n + 2 for n in shape])

    def interior(arr):
        return arr[sl_s] if arr.ndim == d else arr[(slice(None), *sl_s)]

    def vals(shp, k, kind):
        v = _values(shp, k, kind, "dense", sp.get("input_scale", 1.0))
        return (v + 1j * _values(shp, k + 7, kind, "dense")) if kind == "c" else v

    owners = [(vals(pshape, 11 + 3 * q, pkind) * (1.0 - 0.5 * q)).astype(cdt if pkind == "c" else real_t) for q in range(3)]
    shared = {}
    for k, (arg, kind, role) in enumerate(sp["arrays"]):
        if arg != primary:
            shp = shape if kind in ("s", "s+", "c") else (d, *shape)
            shared[arg] = vals(shp, k, kind).astype(cdt if kind == "c" else real_t)
    f64 = lambda a, kind: a.astype(np.complex128 if kind == "c" else np.float64).copy()  # noqa: E731
    pre = [f64(interior(o), pkind) for o in owners]
    shared_pre = {a_: f64(v, next(k for a2, k, _r in sp["arrays"] if a2 == a_)) for a_, v in shared.items()}
    s_pass, s_mean = kernelspec.scalar_variant(sp["scalars"], "generic:float", real_t)
    for q in range(3):  # back to back, nothing allocated in between
        fn(**{primary: interior(owners[q])}, **shared, **s_pass)
    states = 0
    for q in range(3):
        A = dict(shared_pre)
        A[primary] = pre[q]
        exp, mask = sp["ref"](A, s_mean, aux)[primary]
        mask = np.broadcast_to(mask, pre[q].shape)
        got = f64(interior(owners[q]), pkind)
        mag = 1.0 + max([float(np.abs(A[a_]).max()) for a_, _k, r_ in sp["arrays"] if r_ != "out"] + [0.0]) ** 2 + float(np.abs(np.asarray(exp)[mask]).max() if mask.any() else 0)
        states += 1
        if mask.any() and not np.all(np.abs(got - exp)[mask] <= 64 * eps * mag):
            fails.append(Fail(f"{tag}:transient-view-history", "one kernel object applied in turn to three fields passed as temporary views: a field did not receive its documented value",
                              field_index=q, argument=primary, shape=shape, dtype=dtype, untouched=bool(np.array_equal(got, pre[q], equal_nan=True))))
            break
        if not np.array_equal(got[~mask], pre[q][~mask], equal_nan=True):
            fails.append(Fail(f"{tag}:transient-view-history:outside-region", "cells outside the documented region changed", field_index=q, argument=primary))
            break
    return CaseResult(fails=fails, states=states, transitions=3, traces=3, outcome=f"transient:{tag}:{dtype}")


def case_mixed_layout(name, opts, dtype):
    """On the GENERATED CODE (pystencils -> g++): every array argument gets a different memory layout (contiguous,
    window of a padded array, every second cell of a larger array, ... rotating over the arguments), so that no two
    arguments share strides - the generated kernel must take each argument's own strides."""
    real_t = np.dtype(dtype).type
    eps = float(np.finfo(real_t).eps)
    cdt = np.complex64 if real_t == np.float32 else np.complex128
    sp = kernelspec.spec(name, opts)
    d = registry.gen_dim(name)
    fails = []
    tag = f"{name}:{','.join(f'{k}={v}' for k, v in sorted(opts.items()) if k not in ('buffers', 'midstep'))}"
    shape = shapes_for(name, opts)[3]
    shim.set_backend("jit")
    try:
        fn, aux = registry.instantiate(name, opts, real_t, num_threads=False, shape=shape)
        states = 0
        for rot in range(2):
            views, A = {}, {}
            for k, (arg, kind, role) in enumerate(sp["arrays"]):
                shp = shape if kind in ("s", "s+", "c") else (d, *shape)
                vals = _values(shp, k, kind, "dense", sp.get("input_scale", 1.0))
                if kind == "c":
                    vals = vals + 1j * _values(shp, k + 7, kind, "dense")
                layout = ("offset", "contiguous", "strided")[(k + rot) % 3]
                views[arg], _base = _bind(vals, cdt if kind == "c" else real_t, layout)
                if role == "out":
                    _sentinel(views[arg])
                A[arg] = views[arg].astype(np.complex128 if kind == "c" else np.float64).copy()
            s_pass, s_mean = kernelspec.scalar_variant(sp["scalars"], "generic:float", real_t)
            pre = {a: v.copy() for a, v in views.items()}
            fn(**views, **s_pass)
            expected = sp["ref"](A, s_mean, aux)
            for arg, kind, role in sp["arrays"]:
                if arg not in expected:
                    continue
                exp, mask = expected[arg]
                mask = np.broadcast_to(mask, views[arg].shape)
                got = views[arg].astype(np.complex128 if kind == "c" else np.float64)
                in_mag = max([float(np.abs(A[a_]).max()) for a_, _k, r_ in sp["arrays"] if r_ != "out"] + [0.0])
                e = np.asarray(exp)[mask]
                mag = 1.0 + in_mag**2 + float(np.abs(e).max() if e.size else 0)
                states += 1
                if e.size and not np.all(np.abs(got[mask] - e) <= 64 * eps * mag):
                    fails.append(Fail(f"{tag}:mixed-layouts", "generated kernel called with arguments of DIFFERENT memory layouts does not produce its documented value (an argument read or written with another argument's strides?)",
                                      argument=arg, shape=shape, dtype=dtype, layouts={a: ("offset", "contiguous", "strided")[(k + rot) % 3] for k, (a, _k2, _r) in enumerate(sp["arrays"])}))
                if np.ascontiguousarray(views[arg][~mask]).tobytes() != np.ascontiguousarray(pre[arg][~mask]).tobytes():
                    fails.append(Fail(f"{tag}:mixed-layouts:outside-region", "cells outside the documented region changed", argument=arg))
    finally:
        shim.set_backend("interp")
    return CaseResult(fails=fails, states=states, transitions=2, traces=2, outcome=f"mixed:{tag}:{dtype}")


def case_stiff(name, opts, dtype):
    """Brinkmann kernels with a stiff penalty (2.75e6) and a target that is exactly zero: the documented quotient
    (u + lambda chi u_b) / (1 + lambda chi) is then u / (1 + lambda chi) to a few ulps of ITSELF; a rearranged
    ("correction") form loses all digits there.  Compared element by element relative to the expected value."""
    real_t = np.dtype(dtype).type
    eps = float(np.finfo(real_t).eps)
    sp = kernelspec.spec(name, opts)
    d = registry.gen_dim(name)
    shim.set_backend("interp")
    shape = shapes_for(name, opts)[3]
    fn, aux = registry.instantiate(name, opts, real_t, num_threads=False, shape=shape)
    views, A = {}, {}
    for k, (arg, kind, role) in enumerate(sp["arrays"]):
        shp = shape if kind in ("s", "s+") else (d, *shape)
        vals = _values(shp, k, kind, "dense")
        if "penalty" in arg:
            vals = np.zeros(shp)
        views[arg] = np.full(shp, np.nan, dtype=real_t) if role == "out" else vals.astype(real_t)
        A[arg] = views[arg].astype(np.float64).copy()
    scal = {k: (2.75e6 if k == "penalty_factor" else ([0.0] * len(v) if isinstance(v, list) else 0.0)) for k, v in sp["scalars"].items()}
    s_pass, s_mean = kernelspec.scalar_variant(scal, "dyadic:float", real_t)
    fn(**views, **s_pass)
    fails = []
    out_arg = next(a for a, _k, r in sp["arrays"] if r == "out")
    exp, mask = sp["ref"](A, s_mean, aux)[out_arg]
    got = views[out_arg].astype(np.float64)
    rel = np.abs(got - exp) / np.maximum(np.abs(exp), 1e-300)
    sel = np.abs(exp) > 0
    if not np.all(rel[sel] <= 64 * eps):
        i = int(np.argmax(np.where(sel, rel, 0).ravel()))
        fails.append(Fail(f"{name}:{opts.get('field_type')}:stiff-penalty", "stiff penalty towards a zero target: the output is not the documented quotient to a few ulps of itself", got=float(got.ravel()[i]), want=float(np.asarray(exp).ravel()[i]), relative_error=float(rel.ravel()[i]), dtype=dtype))
    return CaseResult(fails=fails, states=int(sel.sum()), transitions=1, traces=1, outcome=f"stiff:{name}:{opts.get('field_type')}:{dtype}:{int(sel.sum()) > 0}")


CASES = {"mixed_layout": case_mixed_layout, "generator": case_generator, "inplace": case_inplace, "transient": case_transient, "stiff": case_stiff}


def run(r) -> None:
    r.bind_model()
    quick = r.tier == "quick"
    cases = []
    for name, opts in registry.entries():
        for dt in ("float64", "float32"):
            cases.append(dict(name=name, opts=opts, dtype=dt, backend="interp"))
            if not quick:
                cases.append(dict(name=name, opts=opts, dtype=dt, backend="jit"))
    cases.sort(key=lambda c: (c["backend"] != "jit", "3d" not in c["name"]))
    r.run_cases("generators", "generator", cases)
    inpl = [dict(name=n, opts=o, dtype=dt) for n, o in registry.entries() if any(e in n for e in ELEMENTWISE) and not o.get("fixed") for dt in ("float64", "float32")]
    r.run_cases("in-place-calls", "inplace", inpl)
    r.run_cases("mixed-layouts-generated-code", "mixed_layout", [dict(name=n, opts=o, dtype=dt) for n, o in registry.entries() if not o.get("fixed") and not o.get("length") for dt in ("float64", "float32")])
    r.run_cases("stiff-penalty", "stiff", [dict(name=n, opts=o, dtype=dt) for n, o in registry.entries() if "brinkmann" in n for dt in ("float64", "float32")])
    r.run_cases("transient-view-history", "transient", [dict(name=n, opts=o, dtype=dt) for n, o in registry.entries() for dt in ("float64", "float32")])
    r.bounds = {"generators_x_options": len(registry.entries()), "dtypes": 2, "shapes_per_generator": "4 from the minimal size up + one long axis (70 / 36 cells) in every position", "bindings": BINDINGS, "patterns": PATTERNS, "scalar_arguments": kernelspec.SCALAR_VARIANTS, "call_styles": ["keyword", "positional (wrapper closures)"], "backends": ["interp"] if quick else ["interp", "jit"]}
    r.extra["rule"] = "one state per (generator option tuple, dtype, shape, binding, pattern, array argument): value on the documented region vs closed form, raw bytes everywhere else"
    r.assumptions = ["quick tier executes the captured kernels on the interpreter (bound to the generated code by conformance replay, incl. strided bindings); thorough tier repeats on the JIT back end (4-D kernels: interpreter only)"]
