"""C09 - marker kinematics are the rigid-section kinematics of the body.

lattice over forcing grid x body parameters x pose alphabet x BASIS over the unit (V, Omega) of rigid
bodies / per-node unit velocities and per-element unit material-frame angular velocities of rods.
Oracle: v_m = V + (Q^T omega) x (x_m - X); body-fixed grids: advancing the pose with PyElastica's own
kinematic update by delta moves the markers by delta * v_m to second order (error ratio ~4 between
delta and delta/2); sphere markers translate with the centre; rod markers move rigidly with their
element's cross-section, sit at radius * ratio from the element centre (0 for centre markers),
nodal grids coincide with node positions and velocities.
"""

from __future__ import annotations

import numpy as np

from harness import bodies
from harness.core import CaseResult, Fail


def _embed(v):
    out = np.zeros((3, v.shape[1]))
    out[: v.shape[0]] = v
    return out


def case_rigid(kind, rot_idx, origin_idx, n_points=None):
    from elastica.rod.data_structures import overload_operator_kinematic_numba

    planar = kind == "cylinder2d"
    rots = bodies.rotations_2d() if planar else bodies.rotations_3d()
    rot = rots[rot_idx % len(rots)]
    origin = [np.array([0.5, 0.5, 0.5]), np.array([1.0, 2.0, 3.0]), np.zeros(3)][origin_idx]  # incl. a body centred exactly at the coordinate origin
    if planar:
        origin = origin * np.array([1, 1, 0])
    fails = []
    tag = f"rigid:{kind}"
    states = 0
    basis = list(np.eye(6)) + [np.array([0.3, -0.2, 0.1, 0.4, -0.6, 0.5])]
    for bi, b in enumerate(basis):
        if planar and (b[2] != 0 or b[3] != 0 or b[4] != 0) and bi < 6:
            continue
        body, grid = bodies.make_rigid(kind, rot, origin, n_points=n_points)
        d = grid.grid_dim
        body.velocity_collection[:, 0] = b[:3]
        body.omega_collection[:, 0] = b[3:]
        if planar:
            body.velocity_collection[2, 0] = 0
            body.omega_collection[:2, 0] = 0
        grid.compute_lag_grid_position_field()
        if bi % 2 == 1:
            # history: the force transfer (which only reads the markers) comes between the position update and the
            # velocity evaluation, and the velocity is evaluated twice
            lagf = (np.cos(1.1 * np.arange(d * grid.num_lag_nodes) + 0.7) * 1.5).reshape(d, grid.num_lag_nodes)
            grid.transfer_forcing_from_grid_to_body(body_flow_forces=np.zeros((3, 1)), body_flow_torques=np.zeros((3, 1)), lag_grid_forcing_field=lagf)
            grid.compute_lag_grid_velocity_field()
        grid.compute_lag_grid_velocity_field()
        states += 1
        Q = body.director_collection[:, :, 0]
        X = _embed(grid.position_field)
        Vm = _embed(grid.velocity_field)
        om_lab = Q.T @ body.omega_collection[:, 0]
        want = body.velocity_collection + np.cross(om_lab, (X - body.position_collection).T).T
        dev = np.abs(Vm - want)[:d]
        if not dev.max() <= 1e-13:
            m = int(np.argmax(dev.max(0)))
            fails.append(Fail(f"{tag}:velocity", "marker velocity != V + Omega x (x_marker - X) with Omega the lab-frame angular velocity", marker=m, got=Vm[:, m].tolist(), want=want[:, m].tolist(), rot=rot_idx, basis=bi))
        # pose advance with PyElastica's own kinematic update
        errs = []
        for delta in (1e-3, 5e-4):
            body2, grid2 = bodies.make_rigid(kind, rot, origin, n_points=n_points)
            body2.velocity_collection[...] = body.velocity_collection
            body2.omega_collection[...] = body.omega_collection
            grid2.compute_lag_grid_position_field()
            x0 = grid2.position_field.copy()
            overload_operator_kinematic_numba(delta, body2.position_collection, body2.director_collection, body2.velocity_collection, body2.omega_collection)
            grid2.compute_lag_grid_position_field()
            disp = grid2.position_field - x0
            if kind == "sphere":
                want_disp = delta * body.velocity_collection[:d]
                if np.abs(disp - want_disp).max() > 1e-15:
                    fails.append(Fail(f"{tag}:sphere-translation", "sphere markers do not simply translate with the centre", basis=bi))
                errs.append(0.0)
            else:
                errs.append(float(np.abs(disp - delta * grid.velocity_field).max()))
        if kind != "sphere":
            scale = float(np.abs(body.omega_collection).max()) ** 2 * 0.5
            if errs[0] > 2.0 * scale * (1e-3) ** 2 + 1e-15:
                fails.append(Fail(f"{tag}:pose-advance", "advancing the pose by delta does not move the markers by delta * velocity to second order", errors=errs, basis=bi, rot=rot_idx))
            elif errs[0] > 1e-12 and not (3.0 < errs[0] / max(errs[1], 1e-300) < 5.0):
                fails.append(Fail(f"{tag}:pose-advance-order", "marker displacement error is not second order in delta", errors=errs, basis=bi, rot=rot_idx))
    return CaseResult(fails=fails, states=states, transitions=states * 4, traces=states, outcome=f"{kind}:{states}")


def case_rod(kind, n_elems, taper, bent, rot_idx, density, seed, finalize=False):
    planar = bodies.rod_grid_is_planar(kind)
    rots = bodies.rotations_2d() if planar else bodies.rotations_3d()
    rot = rots[rot_idx % len(rots)]
    # the forcing grid is constructed on the STRAIGHT rod; the rod is bent / rotated / twisted afterwards
    rod = bodies.make_rod(n_elems, taper, bent, rot=rot, planar=planar, seed=seed, deform=False)
    grid = bodies.make_rod_grid(kind, rod, density=density)
    if finalize:
        # as every coupled simulation does: the rod is handed to a PyElastica simulator and finalised AFTER
        # its forcing grid was built (finalize() moves the rod's arrays into block memory and re-binds them)
        import elastica as ea

        class _Env(ea.BaseSystemCollection, ea.Constraints, ea.Forcing, ea.Damping):
            pass

        env = _Env()
        env.append(rod)
        env.finalize()
    bodies.deform_rod(rod, bent, rot, planar, seed)
    d = grid.grid_dim
    n = grid.num_lag_nodes
    fails = []
    tag = f"rod:{kind}"
    states = 0
    # marker -> element map and expected offsets, derived from the documented layout
    elem_pos = 0.5 * (rod.position_collection[:, 1:] + rod.position_collection[:, :-1])
    if kind.startswith("nodal"):
        owner = None
    elif kind.startswith("element"):
        owner = np.arange(n_elems)
    elif kind == "edge":
        owner = np.concatenate([np.arange(n_elems)] * 3)
    else:
        owner = np.concatenate([np.full(int(c), e) for e, c in enumerate(grid.surface_grid_points)])
    grid.compute_lag_grid_position_field()
    X = _embed(grid.position_field)
    # ---- positions
    if owner is None:
        if not np.array_equal(grid.position_field, rod.position_collection[:d]):
            fails.append(Fail(f"{tag}:position", "nodal grid does not coincide with the node positions"))
    else:
        r = X - elem_pos[:, owner]
        if planar:
            r[2] = 0
        dist = np.linalg.norm(r, axis=0)
        if kind.startswith("element"):
            if dist.max() > 1e-15:
                fails.append(Fail(f"{tag}:position", "element-centric markers are not on the element centres", max_dist=float(dist.max())))
        elif kind == "edge":
            want = np.concatenate([np.zeros(n_elems), rod.radius, rod.radius])
            if np.abs(dist - want).max() > 1e-14:
                fails.append(Fail(f"{tag}:position", "edge markers are not at the local radius from the element centre", got=dist.tolist(), want=want.tolist()))
            # edge markers are perpendicular to the tangent, on opposite sides
            tang = rod.tangents[:, owner]
            if np.abs((r * tang).sum(0)).max() > 1e-14:
                fails.append(Fail(f"{tag}:position-normal", "edge marker offsets are not perpendicular to the element tangent"))
            if np.abs(r[:, n_elems : 2 * n_elems] + r[:, 2 * n_elems :]).max() > 1e-14:
                fails.append(Fail(f"{tag}:position-opposite", "left/right edge markers are not mirror images about the centre line"))
        else:
            single = grid.surface_grid_points[owner] == 1
            want = rod.radius[owner] * grid.grid_point_radius_ratio
            want = np.where(single, 0.0, want)
            if np.abs(dist - want).max() > 1e-14:
                m = int(np.argmax(np.abs(dist - want)))
                fails.append(Fail(f"{tag}:position", "surface marker is not at radius * cap ratio from its element centre (0 for centre markers)", marker=m, got=float(dist[m]), want=float(want[m]), owner=int(owner[m])))
            # in the cross-section plane: offset perpendicular to d3 of the element
            d3 = rod.director_collection[2][:, owner]
            if np.abs((r * d3).sum(0)).max() > 1e-14:
                fails.append(Fail(f"{tag}:position-plane", "surface marker offsets are not in the cross-section plane of their element"))
            # cap ratios: strictly inside (ratio < 1) only on the end elements
            inner = grid.grid_point_radius_ratio < 1.0
            if np.any(inner & (owner != 0) & (owner != n_elems - 1)):
                fails.append(Fail(f"{tag}:cap-location", "cap markers found away from the rod ends"))
            if kind == "surface" and np.any(inner):
                fails.append(Fail(f"{tag}:cap-without-option", "cap markers present although caps are disabled"))
    # ---- velocities: basis over node velocities and element angular velocities + one generic state
    mass = rod.mass
    def check_velocity(label, history="position,velocity"):
        # histories of the grid's public methods: the force transfer (which only READS marker positions) may come
        # between the position update and the velocity evaluation, or the velocity may be asked for twice
        for op in history.split(","):
            if op == "position":
                grid.compute_lag_grid_position_field()
            elif op == "velocity":
                grid.compute_lag_grid_velocity_field()
            elif op == "transfer":
                lagf = (np.sin(1.7 * np.arange(d * n) + 0.3) * 2.0).reshape(d, n)
                grid.transfer_forcing_from_grid_to_body(body_flow_forces=np.zeros((3, n_elems + 1)), body_flow_torques=np.zeros((3, n_elems)), lag_grid_forcing_field=lagf)
        Vm = _embed(grid.velocity_field)
        if owner is None:
            want = rod.velocity_collection.copy()
        else:
            v_el = (mass[1:] * rod.velocity_collection[:, 1:] + mass[:-1] * rod.velocity_collection[:, :-1]) / (mass[1:] + mass[:-1])
            om_lab = np.einsum("jie,je->ie", rod.director_collection, rod.omega_collection)
            rr = _embed(grid.position_field) - elem_pos[:, owner]
            if planar:
                rr[2] = 0
            want = v_el[:, owner] + np.cross(om_lab[:, owner].T, rr.T).T
        dev = np.abs(Vm - want)[:d]
        if not dev.max() <= 1e-13:
            m = int(np.argmax(dev.max(0)))
            fails.append(Fail(f"{tag}:velocity", "marker does not move rigidly with the cross-section of its element (v_elem + Omega_lab x offset)", marker=m, got=Vm[:d, m].tolist(), want=want[:d, m].tolist(), state=label, history=history, n_elems=n_elems, rot=rot_idx))
    for node in range(n_elems + 1):
        for c in range(d):
            bodies.set_rod_velocity(rod, node, c)
            check_velocity(f"node{node}:{c}")
            states += 1
    for e in range(n_elems):
        for c in ((2,) if planar else range(3)):
            bodies.set_rod_velocity(rod, None, None, elem=e, ocomp=c, planar=planar)
            check_velocity(f"elem{e}:{c}")
            states += 1
    bodies.generic_rod_velocity(rod, seed, planar=planar)
    check_velocity("generic")
    states += 1
    for hist in ("position,transfer,velocity", "position,velocity,transfer,velocity", "position,transfer,transfer,velocity,velocity"):
        bodies.generic_rod_velocity(rod, seed + 1, planar=planar)
        check_velocity("generic", hist)
        states += 1
    return CaseResult(fails=fails, states=states, transitions=states, traces=states, outcome=f"{kind}:{n_elems}:{taper}:{bent}:{n}", extra={"markers": n})


CASES = {"rigid": case_rigid, "rod": case_rod}


def run(r) -> None:
    quick = r.tier == "quick"
    rigid = []
    for kind in bodies.RIGID:
        nrot = len(bodies.rotations_2d() if kind == "cylinder2d" else bodies.rotations_3d())
        for ri in range(nrot):
            for oi in (0, 1):
                rigid.append(dict(kind=kind, rot_idx=ri, origin_idx=oi))
    for kind in bodies.RIGID:
        nrot = len(bodies.rotations_2d() if kind == "cylinder2d" else bodies.rotations_3d())
        for ri in (0, nrot - 1):
            rigid.append(dict(kind=kind, rot_idx=ri, origin_idx=2))
    # marker-count alphabet (odd x odd plane grids have a marker exactly at the body origin; minimal counts)
    for kind, counts in bodies.RIGID_COUNTS.items():
        nrot = len(bodies.rotations_2d() if kind == "cylinder2d" else bodies.rotations_3d())
        for n in counts:
            for ri in (0, nrot - 1):
                rigid.append(dict(kind=kind, rot_idx=ri, origin_idx=1, n_points=n))
    r.run_cases("rigid-grids", "rigid", rigid, chunksize=4)
    rods = []
    for kind in bodies.ROD_GRIDS:
        planar = bodies.rod_grid_is_planar(kind)
        nrot = len(bodies.rotations_2d() if planar else bodies.rotations_3d())
        dens = [8] if not kind.startswith("surface") else [8, 1, 4, 12]
        for n_elems in (2, 3, 5):
            for taper in ((False, True, "reverse", "spindle", "spindle-rev") if kind.startswith("surface") else (False, True, "spindle")):
                for bent in (False, True):
                    for density in dens:
                        rots = range(nrot) if (not quick or (n_elems == 3 and taper is True and bent and density == dens[0])) else (0, nrot - 1)
                        for ri in rots:
                            rods.append(dict(kind=kind, n_elems=n_elems, taper=taper, bent=bent, rot_idx=ri, density=density, seed=r.seed))
                        if bent and density == dens[0]:
                            rods.append(dict(kind=kind, n_elems=n_elems, taper=taper, bent=bent, rot_idx=nrot - 1, density=density, seed=r.seed, finalize=True))
    r.run_cases("rod-grids", "rod", rods, chunksize=8)
    r.bounds = {"rigid_marker_counts": bodies.RIGID_COUNTS, "rigid": bodies.RIGID, "rod_grids": bodies.ROD_GRIDS, "rotations_3d": "24 cube rotations + 3 generic", "rotations_2d": 7, "n_elems": [2, 3, 5],
                "velocity_basis": "6 unit (V, Omega) + 1 generic (rigid); every node x component, every element x material-frame component + 1 generic (rods)", "delta": [1e-3, 5e-4]}
    r.extra["rule"] = "one state per (grid, body parameters, pose, velocity basis member)"
    r.assumptions = ["PyElastica's kinematic update (overload_operator_kinematic_numba) defines 'advancing the pose'", "element velocity = PyElastica's mass-weighted node average (re-derived, not imported)"]
