"""C08 - action equals reaction between every immersed body and the fluid.

lattice over forcing-grid type x body parameters x pose alphabet (24 cube rotations + 3 generic,
bent/tapered rods, off-origin rigid bodies); for each case a BASIS over unit marker forces
(every marker x component): net force = -sum of marker forces; for rigid bodies and off-node rod
grids net moment about O in {0, (1,2,3)} of nodal forces + lab-frame couples = -moment of marker
forces; rigid bodies: power of the transferred wrench = -power of marker forces.  A subset runs the
full ImmersedBodyFlowInteraction path on a real flow field (grid integral of the spread force + net
body force = 0).
"""

from __future__ import annotations

import numpy as np

from harness import bodies, lagcomm
from harness.core import CaseResult, Fail

ORIGINS = [np.zeros(3), np.array([1.0, 2.0, 3.0])]


def _embed(v2):
    out = np.zeros((3, v2.shape[1]))
    out[: v2.shape[0]] = v2
    return out


def case_rod(kind, n_elems, taper, bent, rot_idx, density, seed, finalize=False):
    planar = bodies.rod_grid_is_planar(kind)
    rots = bodies.rotations_2d() if planar else bodies.rotations_3d()
    rot = rots[rot_idx % len(rots)]
    # the forcing grid is constructed on the STRAIGHT rod; the rod is bent / rotated / twisted afterwards
    rod = bodies.make_rod(n_elems, taper, bent, rot=rot, planar=planar, seed=seed, deform=False)
    grid = bodies.make_rod_grid(kind, rod, density=density)
    if finalize:
        # as every coupled simulation does: the rod is handed to a PyElastica simulator and finalised AFTER
        # its forcing grid was built (finalize() moves the rod's arrays into block memory and re-binds them)
        import elastica as ea

        class _Env(ea.BaseSystemCollection, ea.Constraints, ea.Forcing, ea.Damping):
            pass

        env = _Env()
        env.append(rod)
        env.finalize()
    bodies.deform_rod(rod, bent, rot, planar, seed)
    grid.compute_lag_grid_position_field()
    d = grid.grid_dim
    n = grid.num_lag_nodes
    fails = []
    tag = f"rod:{kind}"
    X = _embed(grid.position_field)
    nodes = rod.position_collection
    Qt = np.transpose(rod.director_collection, (1, 0, 2))  # Q^T per element
    pos0 = rod.position_collection.copy()
    dir0 = rod.director_collection.copy()
    F = np.zeros((3, n_elems + 1))
    T = np.zeros((3, n_elems))
    states = 0
    check_moment = not kind.startswith("nodal")
    worst = 0.0
    for m in range(n):
        for c in range(d):
            f = np.zeros((d, n))
            f[c, m] = 1.0
            F[...] = 7.0  # stale content must not leak into the result
            T[...] = -5.0
            if kind.startswith("element"):
                T[...] = 0.0  # documented: element-centric grid never writes torques (zero at initialisation)
            grid.transfer_forcing_from_grid_to_body(body_flow_forces=F, body_flow_torques=T, lag_grid_forcing_field=f)
            states += 1
            f3 = _embed(f)
            if not (np.all(np.isfinite(F[:d])) and np.all(np.isfinite(T if not kind.startswith("nodal2") else T))):
                fails.append(Fail(f"{tag}:nonfinite", "non-finite body force / torque", marker=m, component=c))
                continue
            net = F.sum(1) + f3.sum(1)
            if planar:
                net_chk = net[:2] if kind != "edge" else net
                # planar grids write only the in-plane rows (nodal2/element2): rows >= d keep the caller's content
                if kind in ("nodal2", "element2"):
                    net_chk = (F[:2].sum(1) + f.sum(1))
            else:
                net_chk = net
            if np.abs(net_chk).max() > 1e-13:
                fails.append(Fail(f"{tag}:net-force", "net force transferred to the rod is not minus the sum of marker forces", marker=m, component=c, residual=net_chk.tolist(), n_elems=n_elems, rot=rot_idx))
            if check_moment:
                Fn = F.copy()
                if kind == "element2":
                    Fn[2] = 0.0
                Tl = np.einsum("ije,je->ie", Qt, T)
                for O in ORIGINS:
                    mom_body = np.cross((nodes - O[:, None]).T, Fn.T).sum(0) + Tl.sum(1)
                    mom_mark = np.cross((X - O[:, None]).T, f3.T).sum(0)
                    res = mom_body + mom_mark
                    if planar:
                        res = res[2:]
                    worst = max(worst, float(np.abs(res).max()))
                    if np.abs(res).max() > 1e-12 * (1 + np.linalg.norm(O)):
                        fails.append(Fail(f"{tag}:net-moment", "net moment of nodal forces plus element couples is not minus the moment of the marker forces", marker=m, component=c, about=O.tolist(), residual=res.tolist(), n_elems=n_elems, taper=taper, bent=bent, rot=rot_idx))
                        break
    if not np.array_equal(rod.position_collection, pos0) or not np.array_equal(rod.director_collection, dir0):
        fails.append(Fail(f"{tag}:body-modified", "force transfer modified the body state"))
    return CaseResult(fails=fails, states=states, transitions=states, traces=states, outcome=f"{kind}:{n_elems}:{taper}:{bent}:{n}", extra={"markers": n, "worst_moment_residual": worst})


def case_rigid(kind, rot_idx, origin_idx, vel_idx, n_points=None):
    planar = kind == "cylinder2d"
    rots = bodies.rotations_2d() if planar else bodies.rotations_3d()
    rot = rots[rot_idx % len(rots)]
    origin = [np.array([0.5, 0.5, 0.5]), np.array([1.0, 2.0, 3.0])][origin_idx]
    if planar:
        origin = origin * np.array([1, 1, 0])
    body, grid = bodies.make_rigid(kind, rot, origin, n_points=n_points)
    d = grid.grid_dim
    n = grid.num_lag_nodes
    fails = []
    tag = f"rigid:{kind}"
    # body velocity basis member
    basis6 = np.eye(6)[vel_idx]
    body.velocity_collection[:, 0] = basis6[:3]
    body.omega_collection[:, 0] = basis6[3:]
    if planar:
        body.velocity_collection[2, 0] = 0
        body.omega_collection[:2, 0] = 0
        if vel_idx in (2, 3, 4):
            body.velocity_collection[:, 0] = [0.3, -0.2, 0]
            body.omega_collection[2, 0] = 0.5 * (vel_idx - 2)
    grid.compute_lag_grid_position_field()
    grid.compute_lag_grid_velocity_field()
    X = _embed(grid.position_field)
    Vm = _embed(grid.velocity_field)
    Q = body.director_collection[:, :, 0]
    Xc = body.position_collection[:, 0]
    V = body.velocity_collection[:, 0]
    Om_lab = Q.T @ body.omega_collection[:, 0]
    F = np.zeros((3, 1))
    T = np.zeros((3, 1))
    states = 0
    for m in range(n):
        for c in range(d):
            f = np.zeros((d, n))
            f[c, m] = 1.0
            F[...] = 7.0
            T[...] = -5.0
            if planar:
                F[2] = 0.0
                T[:2] = 0.0
            grid.transfer_forcing_from_grid_to_body(body_flow_forces=F, body_flow_torques=T, lag_grid_forcing_field=f)
            states += 1
            f3 = _embed(f)
            if not (np.all(np.isfinite(F)) and np.all(np.isfinite(T))):
                fails.append(Fail(f"{tag}:nonfinite", "non-finite body force / torque", marker=m, component=c))
                continue
            net = F[:, 0] + f3.sum(1)
            if np.abs(net).max() > 1e-13:
                fails.append(Fail(f"{tag}:net-force", "net force on the rigid body is not minus the sum of marker forces", marker=m, component=c, residual=net.tolist(), rot=rot_idx))
            T_lab = Q.T @ T[:, 0]
            for O in ORIGINS:
                res = np.cross(Xc - O, F[:, 0]) + T_lab + np.cross((X - O[:, None]).T, f3.T).sum(0)
                if np.abs(res).max() > 1e-12 * (1 + np.linalg.norm(O)):
                    fails.append(Fail(f"{tag}:net-moment", "net moment on the rigid body is not minus the moment of the marker forces", marker=m, component=c, about=O.tolist(), residual=res.tolist(), rot=rot_idx, origin=origin.tolist()))
                    break
            power = F[:, 0] @ V + T_lab @ Om_lab + (f3 * Vm).sum()
            if abs(power) > 1e-12:
                fails.append(Fail(f"{tag}:power", "power of the transferred wrench is not minus the power of the marker forces at the marker velocities", marker=m, component=c, residual=float(power), rot=rot_idx, vel=vel_idx))
    return CaseResult(fails=fails, states=states, transitions=states, traces=states, outcome=f"{kind}:{n}:{vel_idx}", extra={"markers": n})


def _make_interactor(kind, dim, dx, shape, real_t, forcing, vel, seed, offset=None):
    import sopht.simulator as sps

    centre = np.array([shape[-1] * dx / 2, shape[-2] * dx / 2, (shape[0] * dx / 2 if dim == 3 else 0.0)])
    if offset is not None:
        centre = centre + np.array(offset) * dx
        if dim == 2:
            centre[2] = 0.0
    if kind in bodies.RIGID:
        rot = (bodies.rotations_2d() if dim == 2 else bodies.rotations_3d())[4 if dim == 2 else 25]
        body, _ = bodies.make_rigid(kind, rot, centre)
        body.velocity_collection[:dim, 0] = [0.2, -0.1, 0.05][:dim]
        body.omega_collection[2 if dim == 2 else slice(None), 0] = 0.7 if dim == 2 else [0.3, -0.2, 0.5]
        cls = {"cylinder2d": (sps.CircularCylinderForcingGrid, {"num_forcing_points": 8}), "cylinder3d": (sps.OpenEndCircularCylinderForcingGrid, {"num_forcing_points_along_length": 3}),
               "sphere": (sps.SphereForcingGrid, {"num_forcing_points_along_equator": 6}), "plane": (sps.RectangularPlaneForcingGrid, {"num_forcing_points_along_length": 4})}[kind]
        inter = sps.RigidBodyFlowInteraction(rigid_body=body, eul_grid_forcing_field=forcing, eul_grid_velocity_field=vel, virtual_boundary_stiffness_coeff=-3.0,
                                             virtual_boundary_damping_coeff=-0.5, dx=dx, grid_dim=dim, real_t=real_t, forcing_grid_cls=cls[0], **cls[1])
    else:
        rod = bodies.make_rod(3, True, True, rot=None, planar=(dim == 2), seed=seed)
        # move the rod into the middle of the grid
        shift = centre - rod.position_collection.mean(1)
        if dim == 2:
            shift[2] = 0
        rod.position_collection += shift[:, None]
        bodies.generic_rod_velocity(rod, seed, planar=(dim == 2))
        cls = {"edge": (sps.CosseratRodEdgeForcingGrid, {}), "element2": (sps.CosseratRodElementCentricForcingGrid, {}), "element3": (sps.CosseratRodElementCentricForcingGrid, {}),
               "surface-cap": (sps.CosseratRodSurfaceForcingGrid, {"surface_grid_density_for_largest_element": 6, "with_cap": True})}[kind]
        inter = sps.CosseratRodFlowInteraction(cosserat_rod=rod, eul_grid_forcing_field=forcing, eul_grid_velocity_field=vel, virtual_boundary_stiffness_coeff=-3.0,
                                               virtual_boundary_damping_coeff=-0.5, dx=dx, grid_dim=dim, real_t=real_t, forcing_grid_cls=cls[0], **cls[1])
        body = rod
    return inter, body


def _flow_arrays(dim, shape, real_t, seed):
    n = int(np.prod(shape))
    i = np.arange(dim * n, dtype=np.float64)
    vel = (np.sin(0.61 * i + seed) + 0.3 * np.cos(1.7 * i)).reshape((dim, *shape)).astype(real_t)
    return vel, np.zeros((dim, *shape), dtype=real_t)


def case_two_bodies(kind_a, kind_b, dtype, dx_idx, seed):
    """Two bodies coupled to ONE flow (shared Eulerian velocity and forcing arrays), interactors called in
    both orders: the fluid receives the SUM of both marker-force sets (each interactor accumulates, none
    overwrites), each body receives minus its own."""
    real_t = np.dtype(dtype).type
    eps = float(np.finfo(real_t).eps)
    fails = []
    dim = 2 if kind_a in ("cylinder2d", "edge", "element2") else 3
    dx = lagcomm.DXS[dx_idx]
    shape = {2: (30, 34), 3: (20, 21, 24)}[dim]
    vel, forcing = _flow_arrays(dim, shape, real_t, seed)
    a, body_a = _make_interactor(kind_a, dim, dx, shape, real_t, forcing, vel, seed, offset=[-2.5, 1.0, 0.5])
    b, body_b = _make_interactor(kind_b, dim, dx, shape, real_t, forcing, vel, seed + 1, offset=[2.0, -1.5, -0.5])
    for it in (a, b):
        it.time_step(dt=0.125)
    states = 0
    for order in ((a, b), (b, a), (a, b, a)):
        forcing[...] = 0
        for it in order:
            it()
        for it in (a, b):
            it.compute_flow_forces_and_torques()
        lag = [it.lag_grid_forcing_field.astype(np.float64) for it in order]
        want = sum(x.sum(1) for x in lag)
        scale = sum(np.abs(x).sum() for x in lag) + 1e-300
        got = forcing.astype(np.float64).reshape(dim, -1).sum(1) * dx**dim
        names = [("a" if it is a else "b") for it in order]
        if not np.abs(got - want).max() <= 64 * eps * scale:
            fails.append(Fail(f"two-bodies:{kind_a}+{kind_b}:fluid-side", "with two bodies on one flow the grid integral of the applied force density differs from the sum of all marker forces (an interactor overwrote instead of accumulating?)",
                              order=names, integral=got.tolist(), markers=want.tolist()))
        for it, nm in ((a, "a"), (b, "b")):
            net = it.body_flow_forces[:dim].sum(1)
            own = it.lag_grid_forcing_field.astype(np.float64).sum(1)
            if not np.abs(net + own).max() <= max(1e-12, 16 * eps) * scale:
                fails.append(Fail(f"two-bodies:{kind_a}+{kind_b}:body-side", "net force on a body is not minus the sum of ITS OWN marker forces when a second body shares the flow", body=nm, order=names))
        states += 1
        for it in (a, b):
            it.time_step(dt=0.0625)
    if max(np.abs(it.lag_grid_forcing_field).max() for it in (a, b)) == 0:
        from harness.interp import HarnessError

        raise HarnessError("C08 two-body case vacuous (zero forces)")
    return CaseResult(fails=fails, states=states, transitions=states * 3, traces=states, outcome=f"two:{kind_a}+{kind_b}:{dtype}:{dx_idx}", extra={"markers": int(a.lag_grid_forcing_field.shape[1] + b.lag_grid_forcing_field.shape[1])})


def case_interaction(kind, dtype, seed, dx_idx=0):
    """Full path: ImmersedBodyFlowInteraction.__call__ / compute_flow_forces_and_torques on a real
    velocity field; grid integral of the spread force density + net body force = 0."""
    import sopht.simulator as sps

    real_t = np.dtype(dtype).type
    fails = []
    dim = 2 if kind in ("cylinder2d", "edge", "element2") else 3
    dx = lagcomm.DXS[dx_idx]
    shape = lagcomm.SHAPES[dim] if dx_idx == 0 else {2: (30, 34), 3: (20, 21, 24)}[dim]
    vel, forcing = _flow_arrays(dim, shape, real_t, seed)
    inter, body = _make_interactor(kind, dim, dx, shape, real_t, forcing, vel, seed)
    inter.time_step(dt=0.125)  # non-trivial integral term afterwards
    inter()  # spreads onto the Eulerian forcing field
    inter.time_step(dt=0.125)
    forcing[...] = 0
    inter()
    inter.compute_flow_forces_and_torques()
    eps = float(np.finfo(real_t).eps)
    lag = inter.lag_grid_forcing_field.astype(np.float64)
    spread_integral = forcing.astype(np.float64).reshape(dim, -1).sum(1) * dx**dim
    marker_sum = lag.sum(1)
    body_net = inter.body_flow_forces[:dim].sum(1)
    scale = np.abs(lag).sum() + 1e-300
    if np.abs(lag).max() == 0:
        from harness.interp import HarnessError

        raise HarnessError("C08 interaction vacuous (zero forces)")
    if np.abs(spread_integral - marker_sum).max() > 64 * eps * scale:
        fails.append(Fail(f"interaction:{kind}:fluid-side", "grid integral of the force density applied to the fluid differs from the sum of marker forces", integral=spread_integral.tolist(), markers=marker_sum.tolist()))
    if np.abs(body_net + marker_sum).max() > max(1e-12, 16 * eps) * scale:
        fails.append(Fail(f"interaction:{kind}:body-side", "net force on the body is not minus the sum of marker forces", body=body_net.tolist(), markers=marker_sum.tolist()))
    if np.abs(spread_integral + body_net).max() > 64 * eps * scale:
        fails.append(Fail(f"interaction:{kind}:action-reaction", "force on the fluid plus force on the body is not zero", fluid=spread_integral.tolist(), body=body_net.tolist()))
    # FlowForces forcing adds (not overwrites) onto the body's external forces
    if hasattr(body, "external_forces"):
        ff = sps.FlowForces(inter)
        body.external_forces[...] = 1.5
        body.external_torques[...] = -0.5
        ff.apply_forces(body, 0.0)
        # apply_forces recomputes the flow forces first, so compare with the recomputed values
        want_f = 1.5 + inter.body_flow_forces
        want_t = -0.5 + inter.body_flow_torques
        if np.abs(body.external_forces - want_f).max() > 1e-13 or np.abs(body.external_torques - want_t).max() > 1e-13:
            fails.append(Fail(f"interaction:{kind}:flow-forces-add", "FlowForces does not add the flow forces/torques to the body's external forces/torques"))
    return CaseResult(fails=fails, states=1, transitions=6, traces=1, outcome=f"interaction:{kind}:{dtype}", extra={"markers": int(lag.shape[1])})


CASES = {"rod": case_rod, "rigid": case_rigid, "interaction": case_interaction, "two_bodies": case_two_bodies}


def run(r) -> None:
    quick = r.tier == "quick"
    rod_cases = []
    for kind in bodies.ROD_GRIDS:
        planar = bodies.rod_grid_is_planar(kind)
        nrot = len(bodies.rotations_2d() if planar else bodies.rotations_3d())
        # 13, 16, 25: the caps gain one, one and two intermediate rings (markers at a FRACTION of the element radius) - up to 12 a cap is a single axis marker
        dens = [8] if not kind.startswith("surface") else [8, 1, 4, 12, 13, 16, 25]
        for n_elems in (2, 3, 5):
            for taper in ((False, True, "reverse", "spindle", "spindle-rev") if kind.startswith("surface") else (False, True, "spindle")):
                for bent in (False, True):
                    for density in dens:
                        rots = range(nrot) if (not quick or (n_elems == 3 and taper is True and bent and density == dens[0])) else (0, nrot - 1)
                        for ri in rots:
                            rod_cases.append(dict(kind=kind, n_elems=n_elems, taper=taper, bent=bent, rot_idx=ri, density=density, seed=r.seed))
                        if bent and density == dens[0]:
                            rod_cases.append(dict(kind=kind, n_elems=n_elems, taper=taper, bent=bent, rot_idx=nrot - 1, density=density, seed=r.seed, finalize=True))
    r.run_cases("rod-grids", "rod", rod_cases, chunksize=8)
    rigid_cases = []
    for kind in bodies.RIGID:
        nrot = len(bodies.rotations_2d() if kind == "cylinder2d" else bodies.rotations_3d())
        for ri in range(nrot):
            for oi in (0, 1):
                for vi in (range(6) if (not quick or ri in (0, nrot - 1)) else (0, 5)):
                    rigid_cases.append(dict(kind=kind, rot_idx=ri, origin_idx=oi, vel_idx=vi))
    for kind, counts in bodies.RIGID_COUNTS.items():
        nrot = len(bodies.rotations_2d() if kind == "cylinder2d" else bodies.rotations_3d())
        for n in counts:
            rigid_cases.append(dict(kind=kind, rot_idx=nrot - 1, origin_idx=1, vel_idx=5, n_points=n))
    r.run_cases("rigid-grids", "rigid", rigid_cases, chunksize=8)
    inter = [dict(kind=k, dtype=dt, seed=r.seed) for k in ("cylinder2d", "edge", "element2", "sphere", "cylinder3d", "plane", "surface-cap", "element3") for dt in ("float64", "float32")]
    inter += [dict(kind=k, dtype="float64", seed=r.seed, dx_idx=1) for k in ("cylinder2d", "edge", "sphere", "element3")]  # non-dyadic spacing
    r.run_cases("full-interaction", "interaction", inter)
    pairs2, pairs3 = ["cylinder2d", "edge", "element2"], ["sphere", "cylinder3d", "plane", "surface-cap", "element3"]
    two = [dict(kind_a=a, kind_b=b, dtype=dt, dx_idx=di, seed=r.seed) for grp in (pairs2, pairs3) for a in grp for b in grp
           for dt, di in ((("float64", 0), ("float32", 1)) if not quick or a == b or (a, b) in (("cylinder2d", "edge"), ("sphere", "element3"), ("plane", "cylinder3d")) else ())]
    r.run_cases("two-bodies-one-flow", "two_bodies", two)
    r.bounds = {"rod_grids": bodies.ROD_GRIDS, "n_elems": [2, 3, 5], "taper": [False, True, "reverse", "spindle", "spindle-rev"], "bent": [False, True], "surface_density": [8, 1, 4, 12, 13, 16, 25],
                "rotations_3d": "24 cube rotations + 3 generic", "rotations_2d": 7, "rigid": bodies.RIGID, "unit_forces": "every marker x component", "body_velocity_basis": 6}
    r.extra["rule"] = "one state per unit marker force (marker x component) per (grid, body parameters, pose); full-interaction: one state per body kind/precision"
    r.assumptions = ["PyElastica rod/rigid-body containers as data holders; moments compared to 1e-12 (double precision body arithmetic)"]
