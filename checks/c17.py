"""C17 - saved fields reload bit-exactly and mismatching files are rejected.

lattice (deviation-bounded, full product in the thorough tier for the core axes) over registry
configurations: dim x dtype x Eulerian field set x Lagrangian grids (count, scalar/vector field
counts, marker count incl. N == dim) x content alphabet (NaN with payload, +-inf, denormal, -0.0,
max) x naming alphabet x IO class.  Each case: save through the real IO object, inspect the HDF5
layout with h5py directly, load into freshly allocated arrays registered under the same names and
compare raw bytes.  Mismatch lattice: one deviation of the loading registry at a time; load must raise.
"""

from __future__ import annotations

import itertools
import os
import shutil
import tempfile

import numpy as np

from harness import explore
from harness.core import CaseResult, Fail

CONTENT = ["ordinary", "nan-payload", "inf", "denormal", "negzero", "max"]
NAMING = ["default", "custom", "prefix", "a_a0", "dup-across-grids"]
MARKERS = [4, 1, 2, 3, 7]
EUL = ["s1v1", "none", "s1", "v1", "s2v2"]


def _scratch():
    base = os.environ.get("TMPDIR") or "/var/tmp"
    return tempfile.mkdtemp(prefix="verif_c17_", dir=base)


def _layout(a, layout):
    """Return an array with the same contents but a different memory layout (the registered object)."""
    if layout in (None, "contiguous"):
        return a
    if layout == "fortran":
        return np.asfortranarray(a)
    if layout == "strided":  # every-other-element view of a larger array along the last axis
        big = np.zeros(a.shape[:-1] + (2 * a.shape[-1],), dtype=a.dtype)
        v = big[..., ::2]
        v[...] = a
        return v
    if layout == "reversed":
        return np.ascontiguousarray(a[..., ::-1])[..., ::-1]
    raise KeyError(layout)


def _fill(shape, dtype, content, k):
    n = int(np.prod(shape))
    i = np.arange(n, dtype=np.float64)
    a = (np.sin(0.37 * i + k) * 3 + ((i * 7 + k) % 5) - 2).astype(dtype).reshape(shape)
    flat = a.reshape(-1)
    it = np.uint32 if dtype == np.float32 else np.uint64
    fi = np.finfo(dtype)
    if n == 0:
        return a
    if content == "nan-payload":
        bits = flat.view(it)
        bits[0] = it(0x7FC00123) if dtype == np.float32 else it(0x7FF8000000ABCDEF)
        bits[-1] = it(0xFFC00001) if dtype == np.float32 else it(0xFFF8000000000001)
    elif content == "inf":
        flat[0] = np.inf
        flat[-1] = -np.inf
    elif content == "denormal":
        flat[0] = fi.smallest_subnormal
        flat[-1] = -fi.smallest_subnormal * 3
    elif content == "negzero":
        flat[0] = -0.0
        flat[-1] = 0.0
    elif content == "max":
        flat[0] = fi.max
        flat[-1] = -fi.max
    return a


def _names(naming, kind, g, j):
    """Field name for the j-th field of kind ('es','ev','ls','lv') on grid g."""
    if naming == "default" or naming == "custom":
        return f"{kind}_g{g}_{j}"
    if naming == "prefix":
        return "f" + "x" * (j + 1) + (f"{kind}{g}")
    if naming == "a_a0":
        base = {"es": "a_0", "ev": "a", "ls": "b_0", "lv": "b"}[kind]
        return base + ("" if j == 0 else f"_{j}") + (f"g{g}" if kind[0] == "l" and g else "")
    if naming == "dup-across-grids":
        return f"{kind}_{j}" if kind[0] == "l" else f"{kind}_g{g}_{j}"
    raise KeyError(naming)


def _grid_name(naming, g):
    if naming == "default":
        return None
    if naming == "prefix":
        return "grid" + "_x" * g
    return f"body{g}"


def build_registry(spec, variant=0):
    """Create arrays + an IO object according to spec. variant changes the fill so that a second
    (loading) registry starts from different bytes. Returns (io, arrays: name -> ndarray, meta)."""
    import sopht.utils as spu

    dim, io_dtype = spec["dim"], np.dtype(spec["dtype"]).type
    dtype = np.dtype(spec.get("array_dtype", spec["dtype"])).type  # registered arrays may differ in precision from the IO object
    content = spec["content"] if variant == 0 else "ordinary"
    naming = spec["naming"]
    _ren = set(spec.get("rename", ()))  # kinds ('es','ev','ls','lv','grid') registered under ANOTHER name (same count)
    _names0, _grid_name0 = _names, _grid_name

    def _names_r(naming_, kind_, g_, j_):
        return _names0(naming_, kind_, g_, j_) + ("_alt" if kind_ in _ren else "")

    def _grid_name_r(naming_, g_):
        n_ = _grid_name0(naming_, g_)
        return ((n_ if n_ is not None else f"grid{g_}") + "_alt") if "grid" in _ren else n_
    grid_size = (5, 6) if dim == 2 else (3, 4, 5)
    arrays = {}
    order = []
    k = 100 * variant
    layout = spec.get("layout")
    _fill0 = _fill

    def _fill_l(shape, dtype_, content_, kk):  # Eulerian fields may be registered as non-contiguous views
        return _layout(_fill0(shape, dtype_, content_, kk), layout)
    eul = spec["eul"]
    ns, nv = {"none": (0, 0), "s1": (1, 0), "v1": (0, 1), "s1v1": (1, 1), "s2v2": (2, 2)}[eul]
    dx = 0.25
    # grid geometry of this registry: per ARRAY-axis coordinate of the first cell centre (default dx / 2 on every
    # axis), spacing and size, each with the deviations the mismatch cases ask for
    base_origin = np.array(spec.get("pos_origins", [dx / 2] * dim), dtype=np.float64)
    shift = spec.get("origin_shift", 0.0)
    origin = base_origin * spec.get("origin_scale", 1.0) + (np.array(shift, dtype=np.float64) if isinstance(shift, (list, tuple)) else shift)
    dx_eff = dx * spec.get("dx_scale", 1.0)
    gs = tuple(int(v) for v in (np.array(grid_size) + np.array(spec.get("grid_delta", [0] * dim))))
    cls = spec["io_class"]
    if cls == "EulerianFieldIO":
        axes = [np.arange(n) * dx_eff + o for n, o in zip(gs, origin)]
        pos = np.flipud(np.array(np.meshgrid(*axes, indexing="ij"))).astype(dtype)
        fields = {}
        for j in range(ns):
            fields[_names_r(naming, "es", 0, j)] = _fill_l(gs, dtype, content, k + j)
        for j in range(nv):
            fields[_names_r(naming, "ev", 0, j)] = _fill_l((dim, *gs), dtype, content, k + 10 + j)
        io = spu.EulerianFieldIO(position_field=pos, eulerian_fields_dict=fields)
        for n_, a in fields.items():
            arrays[("E", n_)] = a
        return io, arrays, {"grid_size": gs, "dx": dx_eff}
    io = spu.IO(dim=dim, real_dtype=io_dtype)
    if ns + nv > 0:
        io.define_eulerian_grid(origin=origin, dx=np.full(dim, dx_eff), grid_size=np.array(gs))
        fields = {}
        for j in range(ns):
            fields[_names_r(naming, "es", 0, j)] = _fill_l(gs, dtype, content, k + j)
        for j in range(nv):
            fields[_names_r(naming, "ev", 0, j)] = _fill_l((dim, *gs), dtype, content, k + 10 + j)
        io.add_as_eulerian_fields_for_io(**fields)
        for n_, a in fields.items():
            arrays[("E", n_)] = a
    for g, (ls, lv, N) in enumerate(spec["grids"]):
        grid = _fill((dim, N), dtype, content, k + 20 + g)
        fields = {}
        for j in range(ls):
            fields[_names_r(naming, "ls", g, j)] = _fill_l((N,), dtype, content, k + 30 + 3 * g + j)
        for j in range(lv):
            fields[_names_r(naming, "lv", g, j)] = _fill_l((dim, N), dtype, content, k + 40 + 3 * g + j)
        gname = _grid_name_r(naming, g)
        io.add_as_lagrangian_fields_for_io(lagrangian_grid=grid, lagrangian_grid_name=gname, lagrangian_grid_connect=(g % 2 == 1), **fields)
        real_name = gname if gname is not None else f"Lagrangian_grid_{g}"
        arrays[("G", real_name)] = grid
        for n_, a in fields.items():
            arrays[("L", real_name, n_)] = a
    return io, arrays, {"grid_size": grid_size, "dx": dx}


def _bytes(a):
    return np.ascontiguousarray(a).tobytes()


def case_roundtrip(spec):
    import h5py

    fails = []
    d = _scratch()
    dim = spec["dim"]
    tag = f"roundtrip:{spec['io_class']}"
    dup_spec = spec["naming"] == "dup-across-grids" and sum(1 for g in spec["grids"] if g[0] + g[1] > 0) >= 2
    try:
        io_a, arr_a, meta = build_registry(spec, 0)
        # the registered arrays are updated IN PLACE after registration (as a simulation does): the file must
        # hold the values at save time, not a snapshot taken at registration
        for k, v in arr_a.items():
            if v.dtype.kind == "f" and v.size:
                v.flat[v.size // 2] = v.flat[v.size // 2] * 0.5 + 0.25 if np.isfinite(v.flat[v.size // 2]) else v.flat[v.size // 2]
        before = {k: _bytes(v) for k, v in arr_a.items()}
        time = spec.get("time", 1.2345678901234567)
        fn = os.path.join(d, "chk_0001.h5")
        io_a.save(h5_file_name=fn, time=time)
        for k, v in arr_a.items():
            if _bytes(v) != before[k]:
                fails.append(Fail(f"{tag}:source-modified", "save() modified a registered source array", field=list(k)))
        # layout on disk
        with h5py.File(fn, "r") as f:
            for k, v in arr_a.items():
                if k[0] == "E":
                    gs = v.shape[-dim:]
                    if v.ndim == dim:
                        p = f"Eulerian/Scalar/{k[1]}"
                        if p not in f or f[p].shape != (1, *gs):
                            fails.append(Fail(f"{tag}:layout:eulerian-scalar", "Eulerian scalar not stored as Eulerian/Scalar/<name> with a leading singleton axis", path=p, found=str(f[p].shape) if p in f else None))
                        elif _bytes(f[p][0]) != before[k]:
                            fails.append(Fail(f"{tag}:layout:eulerian-scalar-data", "stored Eulerian scalar bytes differ", path=p))
                    else:
                        for c in range(dim):
                            p = f"Eulerian/Vector/{k[1]}_{c}"
                            if p not in f or f[p].shape != (1, *gs):
                                fails.append(Fail(f"{tag}:layout:eulerian-vector", "Eulerian vector not stored per component with a leading singleton axis", path=p, found=str(f[p].shape) if p in f else None))
                            elif _bytes(f[p][0]) != _bytes(v[c]):
                                fails.append(Fail(f"{tag}:layout:eulerian-vector-data", "stored Eulerian vector component bytes differ", path=p))
                elif k[0] == "G":
                    p = f"Lagrangian/{k[1]}/Grid"
                    N = v.shape[1]
                    if p not in f or f[p].shape != (N, dim):
                        fails.append(Fail(f"{tag}:layout:grid", "Lagrangian grid not stored marker-major (N, dim)", path=p, N=N, found=str(f[p].shape) if p in f else None))
                    elif _bytes(f[p][...]) != _bytes(v.T):
                        fails.append(Fail(f"{tag}:layout:grid-data", "stored grid bytes differ", path=p))
                else:
                    N = arr_a[("G", k[1])].shape[1]
                    if v.ndim == 1:
                        p = f"Lagrangian/{k[1]}/Scalar/{k[2]}"
                        if p not in f or f[p].shape != (N,):
                            fails.append(Fail(f"{tag}:layout:lagrangian-scalar", "Lagrangian scalar not stored as (N,) under Scalar/", path=p, N=N, found=str(f[p].shape) if p in f else None))
                    else:
                        p = f"Lagrangian/{k[1]}/Vector/{k[2]}"
                        if p not in f or f[p].shape != (N, dim):
                            where = [q for q in (f"Lagrangian/{k[1]}/Scalar/{k[2]}",) if q in f]
                            fails.append(Fail(f"{tag}:layout:lagrangian-vector" + (":N==dim" if N == dim else ""), "Lagrangian vector field not stored marker-major (N, dim) under Vector/",
                                              path=p, N=N, dim=dim, found=str(f[p].shape) if p in f else None, stored_instead_at=where))
                        elif _bytes(f[p][...]) != _bytes(np.moveaxis(v, 0, -1)):
                            fails.append(Fail(f"{tag}:layout:lagrangian-vector-data", "stored Lagrangian vector bytes differ", path=p))
        # load into fresh arrays
        # the loading registry may be of the OTHER Eulerian IO class describing the same grid
        io_b, arr_b, _ = build_registry(dict(spec, io_class=spec.get("load_class", spec["io_class"])), 1)
        t = io_b.load(h5_file_name=fn)
        if np.float64(t).tobytes() != np.float64(time).tobytes():
            fails.append(Fail(f"{tag}:time", "time stamp not restored bit-exactly", saved=time, loaded=float(t)))
        for k, v in arr_b.items():
            if _bytes(v) != before[k]:
                sub = "grid" if k[0] == "G" else "field"
                dup = spec["naming"] == "dup-across-grids" and k[0] == "L"
                nofields = k[0] == "G" and not any(kk[0] == "L" for kk in arr_b)
                key = f"{tag}:restore:{sub}"
                if dup:
                    key = f"{tag}:restore:same-field-name-on-two-grids"
                elif nofields:
                    key = f"{tag}:restore:grid-without-any-lagrangian-field"
                fails.append(Fail(key, f"registered {sub} not restored bit-exactly by load()", field=list(k), shape=list(v.shape)))
        if spec["io_class"] == "IO" and not arr_a:
            pass
    finally:
        shutil.rmtree(d, ignore_errors=True)
    if dup_spec:
        for fl in fails:
            if ":layout:lagrangian" in fl["key"] or ":restore:" in fl["key"]:
                fl["key"] = f"{tag}:same-field-name-on-two-grids"
                fl["what"] = "two Lagrangian grids carry a field with the same keyword name: the first registered array is silently replaced (wrong layout / not restored)"
    nontriv = len(arr_a)
    return CaseResult(fails=fails, states=1, transitions=2, traces=1, outcome=f"{spec['io_class']}:{spec['dim']}:{spec['eul']}:{len(spec['grids'])}:{nontriv}", extra={"arrays": nontriv})


def case_rod(dim, dtype, n_elems):
    import elastica as ea
    import sopht.utils as spu

    fails = []
    d = _scratch()
    try:
        def mk(seed):
            rod = ea.CosseratRod.straight_rod(
                n_elements=n_elems, start=np.array([0.1 * seed, 0.2, 0.3]), direction=np.array([1.0, 0.0, 0.0]), normal=np.array([0.0, 1.0, 0.0]),
                base_length=1.0 + seed, base_radius=0.05 * (1 + seed), density=1e3, youngs_modulus=1e6, shear_modulus=1e6 / 1.5,
            )
            rod.position_collection[1, :] += 0.01 * np.arange(n_elems + 1) ** 2 * (1 + seed)
            return rod
        rod_a = mk(0)
        io_a = spu.CosseratRodIO(rod_a, dim=dim, real_dtype=np.dtype(dtype).type)
        fn = os.path.join(d, "rod_0001.h5")
        io_a.save(h5_file_name=fn, time=0.5)
        want_pos = 0.5 * (rod_a.position_collection[:dim, 1:] + rod_a.position_collection[:dim, :-1])
        want_rad = rod_a.radius.copy()
        rod_b = mk(1)
        io_b = spu.CosseratRodIO(rod_b, dim=dim, real_dtype=np.dtype(dtype).type)
        t = io_b.load(h5_file_name=fn)
        if t != 0.5:
            fails.append(Fail("rod:time", "rod IO time not restored"))
        if _bytes(io_b.rod_element_position) != _bytes(want_pos):
            fails.append(Fail("rod:grid", "rod element positions not restored bit-exactly", n_elems=n_elems, dim=dim))
        if _bytes(rod_b.radius) != _bytes(want_rad):
            fails.append(Fail("rod:radius", "rod radius field not restored bit-exactly", n_elems=n_elems, dim=dim))
        import h5py

        with h5py.File(fn, "r") as f:
            if f["Lagrangian/rod/Grid"].shape != (n_elems, dim):
                fails.append(Fail("rod:layout", "rod grid not stored (N, dim)", found=str(f["Lagrangian/rod/Grid"].shape)))
            if "Lagrangian/rod/Scalar/scalar_3d" not in f or f["Lagrangian/rod/Scalar/scalar_3d"].shape != (n_elems,):
                fails.append(Fail("rod:layout-radius", "rod radius not stored as scalar (N,)"))
    finally:
        shutil.rmtree(d, ignore_errors=True)
    return CaseResult(fails=fails, states=1, transitions=2, traces=1, outcome=f"rod:{dim}:{n_elems}")


MISMATCHES = ["missing-eul-scalar", "missing-eul-vector", "missing-lag-scalar", "missing-lag-vector", "missing-grid", "missing-grid-no-fields",
              "origin-shift", "origin-shift-first-axis", "origin-shift-last-axis", "origin-shift-small", "origin-shift-negative", "origin-shift-small-negative", "dx-x2", "dx-x1.001", "dx-x0.5", "dx-x0.999", "grid+1", "grid-1", "grid+1-first-axis", "grid-slab-first-axis", "grid-slab-last-axis", "eul-scalar-vs-file-without-eulerian",
              # the file holds as many (or more) datasets of the class as the reader registers, but under OTHER names: presence is by name, not by count
              "renamed-eul-scalar", "renamed-eul-vector", "renamed-lag-scalar", "renamed-lag-vector", "renamed-grid", "superset-other-names-eul"]
EULERIAN_MISMATCHES = ["missing-eul-scalar", "missing-eul-vector", "origin-shift", "origin-shift-first-axis", "origin-shift-last-axis", "origin-shift-small", "origin-shift-negative", "origin-shift-small-negative", "dx-x2", "dx-x1.001", "dx-x0.5", "dx-x0.999", "grid+1", "grid-1", "grid+1-first-axis", "grid-slab-first-axis", "grid-slab-last-axis", "renamed-eul-scalar", "renamed-eul-vector", "superset-other-names-eul"]
ORIGINS = {"default": None, "per-axis": [0.125, -0.75, 2.5]}  # coordinate of the first cell centre per array axis


def case_mismatch(dim, dtype, kind, cls="IO", load_cls=None, origins="default"):
    fails = []
    d = _scratch()
    base = dict(dim=dim, dtype=dtype, eul="s1v1", grids=[[1, 1, 4]] if cls == "IO" and (load_cls or cls) == "IO" else [], content="ordinary", naming="custom", io_class=cls)
    if ORIGINS[origins] is not None:
        base["pos_origins"] = ORIGINS[origins][:dim]
    load_spec = dict(base)
    save_spec = dict(base)
    if kind == "missing-eul-scalar":
        save_spec["eul"] = "v1"
        load_spec["eul"] = "s1v1"
    elif kind == "missing-eul-vector":
        save_spec["eul"] = "s1"
    elif kind == "missing-lag-scalar":
        save_spec["grids"] = [[0, 1, 4]]
    elif kind == "missing-lag-vector":
        save_spec["grids"] = [[1, 0, 4]]
    elif kind == "missing-grid":
        load_spec["grids"] = [[1, 1, 4], [1, 0, 4]]
    elif kind == "missing-grid-no-fields":
        save_spec["grids"] = []
        load_spec["grids"] = [[0, 0, 4]]
    elif kind == "origin-shift":
        load_spec["origin_shift"] = 0.125
    elif kind == "origin-shift-first-axis":  # the box moved along ONE axis only
        load_spec["origin_shift"] = [0.125] + [0.0] * (dim - 1)
    elif kind == "origin-shift-last-axis":
        load_spec["origin_shift"] = [0.0] * (dim - 1) + [0.125]
    elif kind == "origin-shift-small":  # a thousandth of a cell along one axis: far above rounding, far below a cell
        load_spec["origin_shift"] = [0.0] * (dim - 1) + [0.25e-3]
    elif kind == "dx-x1.001":
        load_spec["dx_scale"] = 1.001
    # the same deviations with the OTHER sign (registered value below the file's): a comparison must be two-sided
    elif kind == "origin-shift-negative":
        load_spec["origin_shift"] = [-0.125] * dim
    elif kind == "origin-shift-small-negative":
        load_spec["origin_shift"] = [-0.25e-3] + [0.0] * (dim - 1)
    elif kind == "dx-x0.5":
        load_spec["dx_scale"] = 0.5
    elif kind == "dx-x0.999":
        load_spec["dx_scale"] = 0.999
    elif kind == "grid-1":
        load_spec["grid_delta"] = [0] * (dim - 1) + [-1]
    elif kind in ("grid-slab-first-axis", "grid-slab-last-axis"):
        # the FILE holds a one-cell-thick slab (an axis of length 1) of the registered grid: NumPy would broadcast it
        gsz = (5, 6) if dim == 2 else (3, 4, 5)
        ax = 0 if kind.endswith("first-axis") else dim - 1
        save_spec["grid_delta"] = [(1 - gsz[a]) if a == ax else 0 for a in range(dim)]
    elif kind == "grid+1-first-axis":
        load_spec["grid_delta"] = [1] + [0] * (dim - 1)
    elif kind == "dx-x2":
        load_spec["dx_scale"] = 2.0
    elif kind == "grid+1":
        load_spec["grid_delta"] = [0] * (dim - 1) + [1]
    elif kind == "eul-scalar-vs-file-without-eulerian":
        save_spec["eul"] = "none"
    elif kind.startswith("renamed-"):
        save_spec["rename"] = [{"eul-scalar": "es", "eul-vector": "ev", "lag-scalar": "ls", "lag-vector": "lv", "grid": "grid"}[kind[len("renamed-"):]]]
    elif kind == "superset-other-names-eul":  # two scalars and two vectors in the file, none under a registered name
        save_spec["eul"] = "s2v2"
        save_spec["rename"] = ["es", "ev"]
    try:
        io_a, _, _ = build_registry(save_spec, 0)
        fn = os.path.join(d, "chk.h5")
        io_a.save(h5_file_name=fn, time=2.0)
        if load_cls is not None:
            load_spec["io_class"] = load_cls
        io_b, _, _ = build_registry(load_spec, 1)
        raised = None
        try:
            io_b.load(h5_file_name=fn)
        except Exception as e:  # noqa: BLE001  any exception type counts as rejection
            raised = type(e).__name__
        if raised is None:
            fails.append(Fail(f"mismatch:{kind}", "load() returned normally although the file does not match the registered fields/grid", dim=dim, dtype=dtype, saved_with=cls, loaded_with=load_cls or cls, origins=origins))
    finally:
        shutil.rmtree(d, ignore_errors=True)
    return CaseResult(fails=fails, states=1, transitions=2, traces=1, outcome=f"mismatch:{kind}:{cls}:{load_cls}:{origins}:{raised}")


CASES = {"roundtrip": case_roundtrip, "rod": case_rod, "mismatch": case_mismatch}


def run(r) -> None:
    quick = r.tier == "quick"
    grid_opts = [[1, 1], [0, 0], [1, 0], [0, 1], [2, 2], [2, 0], [0, 2]]
    axes = {
        "dim": [3, 2], "dtype": ["float64", "float32"], "eul": EUL, "ngrids": [1, 0, 2],
        "g0": grid_opts, "g1": grid_opts, "N0": MARKERS, "N1": [3, 2, 4],
        "content": CONTENT, "naming": NAMING, "time": [1.2345678901234567, 0.0, 1e-310],
        "array_dtype": [None, "float64", "float32"],
        "layout": [None, "strided", "fortran", "reversed"],
    }
    specs = []
    seen = set()
    for pt in explore.lattice(axes, 2 if quick else 3):
        grids = []
        if pt["ngrids"] >= 1:
            grids.append([pt["g0"][0], pt["g0"][1], pt["N0"]])
        if pt["ngrids"] >= 2:
            grids.append([pt["g1"][0], pt["g1"][1], pt["N1"]])
        spec = dict(dim=pt["dim"], dtype=pt["dtype"], eul=pt["eul"], grids=grids, content=pt["content"], naming=pt["naming"], io_class="IO", time=pt["time"])
        if pt["array_dtype"] is not None and pt["array_dtype"] != pt["dtype"]:
            spec["array_dtype"] = pt["array_dtype"]
        if pt["layout"] is not None:
            spec["layout"] = pt["layout"]
        key = repr(sorted(spec.items(), key=lambda kv: kv[0]))
        if key in seen:
            continue
        seen.add(key)
        specs.append(dict(spec=spec))
    # the N == dim column in full (all field-count options, both dims, both dtypes)
    for dim, dt, g, nm in itertools.product((2, 3), ("float64", "float32"), grid_opts, ("default", "custom")):
        specs.append(dict(spec=dict(dim=dim, dtype=dt, eul="s1", grids=[[g[0], g[1], dim]], content="ordinary", naming=nm, io_class="IO")))
    for dim, dt, adt, content in itertools.product((2, 3), ("float64", "float32"), ("float64", "float32"), CONTENT):
        if adt != dt:
            specs.append(dict(spec=dict(dim=dim, dtype=dt, array_dtype=adt, eul="s1v1", grids=[[1, 1, 4], [1, 1, 3]], content=content, naming="custom", io_class="IO")))
    for dim, dt, lay, cls in itertools.product((2, 3), ("float64", "float32"), ("strided", "fortran", "reversed"), ("IO", "EulerianFieldIO")):
        specs.append(dict(spec=dict(dim=dim, dtype=dt, eul="s1v1", grids=[[1, 1, 4]] if cls == "IO" else [], content="ordinary", naming="custom", io_class=cls, layout=lay)))
    for dim, dt, eul, content in itertools.product((2, 3), ("float64", "float32"), ("s1", "v1", "s1v1", "s2v2"), CONTENT if not quick else CONTENT[:3]):
        specs.append(dict(spec=dict(dim=dim, dtype=dt, eul=eul, grids=[], content=content, naming="custom", io_class="EulerianFieldIO")))
    # boxes whose first cell centre differs per axis, saved with one Eulerian IO class and loaded with either
    for dim, dt, a, b in itertools.product((2, 3), ("float64", "float32"), ("IO", "EulerianFieldIO"), ("IO", "EulerianFieldIO")):
        for o in ORIGINS:
            if o == "default" and a == b:
                continue
            sp_ = dict(dim=dim, dtype=dt, eul="s1v1", grids=[], content="ordinary", naming="custom", io_class=a, load_class=b)
            if ORIGINS[o] is not None:
                sp_["pos_origins"] = ORIGINS[o][:dim]
            specs.append(dict(spec=sp_))
    r.run_cases("roundtrip", "roundtrip", specs, chunksize=8)
    r.run_cases("rod-io", "rod", [dict(dim=d, dtype=dt, n_elems=n) for d in (2, 3) for dt in ("float64", "float32") for n in (2, 3, 5)])
    mm = [dict(dim=d, dtype=dt, kind=k) for d in (2, 3) for dt in ("float64", "float32") for k in MISMATCHES]
    # Eulerian mismatches for every (saving class, loading class) pair, on the default box and on a box whose
    # first cell centre differs per axis
    mm += [dict(dim=d, dtype=dt, kind=k, cls=a, load_cls=b, origins=o) for d in (2, 3) for dt in ("float64", "float32") for k in EULERIAN_MISMATCHES
           for a in ("IO", "EulerianFieldIO") for b in ("IO", "EulerianFieldIO") for o in ORIGINS if not (a == b == "IO" and o == "default")]
    r.run_cases("mismatch", "mismatch", mm)
    r.bounds = {"lattice_axes": {k: len(v) for k, v in axes.items()}, "deviation": 2 if quick else 3, "roundtrip_cases": len(specs), "mismatch_kinds": MISMATCHES, "eulerian_class_pairs": "IO / EulerianFieldIO x IO / EulerianFieldIO", "box_origins": ORIGINS}
    r.extra["rule"] = "one state per registry configuration (save -> inspect layout -> load into fresh arrays -> byte compare); mismatch: one deviation of the loading registry at a time"
    r.assumptions = ["h5py/HDF5 as the storage layer; scratch files under $TMPDIR or /var/tmp, removed by the check"]
