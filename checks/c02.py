"""C02 - simulations converge to analytic Navier-Stokes / advection-diffusion solutions.

A finite family of refinement studies (level: exploration - an asymptotic statement is not decided
by a bounded enumeration; this is the only check whose oracle is independent of ANY transcription of
the discretisation):
  * Lamb-Oseen vortex carried by a free stream, 2-D Navier-Stokes simulator
  * Gaussian blob in a uniform flow, 2-D and 3-D passive transport
over resolutions x centre x strength x viscosity x free-stream direction x precision.
Oracle: closed-form solutions (re-derived here); discrete L2 error; error decreasing at every refinement, order >= 0.5 over
every doubling and >= 1 - 0.15 over the whole ladder; absolute error below a bound calibrated once on the unchanged tree and
stored with a factor-2 margin in checks/c02_bounds.json.
"""

from __future__ import annotations

import itertools
import json
from pathlib import Path

import numpy as np

from harness import simcfg
from harness.core import CaseResult, Fail

LEVEL = "exploration"
BOUNDS_FILE = Path(__file__).with_name("c02_bounds.json")
CORE = 0.05  # initial core radius sqrt(4 nu t0)


def lamb_oseen(pos, centre, gamma, nu, t):
    x = pos[0] - centre[0]
    y = pos[1] - centre[1]
    r2 = x * x + y * y
    return gamma / (4 * np.pi * nu * t) * np.exp(-r2 / (4 * nu * t))


def lamb_oseen_velocity(pos, centre, gamma, nu, t):
    x = pos[0] - centre[0]
    y = pos[1] - centre[1]
    r2 = np.maximum(x * x + y * y, 1e-300)
    ut_over_r = gamma / (2 * np.pi * r2) * (1 - np.exp(-r2 / (4 * nu * t)))
    return np.stack([-ut_over_r * y, ut_over_r * x])


def gaussian(pos, centre, mass, nu, t, dim):
    r2 = sum((pos[k] - centre[k]) ** 2 for k in range(dim))
    return mass / (4 * np.pi * nu * t) ** (dim / 2) * np.exp(-r2 / (4 * nu * t))


def run_one(kind, n, centre, strength, nu, direction, dtype, aspect="square", T=0.15):
    real_t = np.dtype(dtype).type
    dim = simcfg.dim_of(kind)
    shape = (n,) * dim
    x_range = 1.0
    if aspect == "wide":  # more cells along x (last axis); dx stays 1 / n
        shape = shape[:-1] + (3 * n // 2,)
        x_range = 1.5
    elif aspect == "tall":  # more cells along the first axis
        shape = (3 * n // 2,) + shape[1:]
    cfg = dict(kind=kind, shape=shape, dtype=dtype, x_range=x_range, params=[1e-2, nu, 1.0], stream=(kind == "ns2d"), forcing=False, width=2)
    sim = simcfg.make_sim(cfg)
    U = np.array(direction[:dim], dtype=np.float64) * 0.4
    t0 = CORE**2 / (4 * nu)
    pos = sim.position_field.astype(np.float64)
    extent = np.array([x_range * shape[dim - 1 - k] / shape[-1] for k in range(dim)])  # domain length per axis (x, y, z)
    c0 = np.array(centre[:dim]) * extent
    if kind == "ns2d":
        gamma = strength * 0.2
        sim.vorticity_field[...] = lamb_oseen(pos, c0, gamma, nu, t0).astype(real_t)
        sim.velocity_field[...] = (lamb_oseen_velocity(pos, c0, gamma, nu, t0) + U.reshape(2, 1, 1)).astype(real_t)
    else:
        mass = strength * (4 * np.pi * nu * t0) ** (dim / 2)  # peak value = strength
        sim.primary_field[...] = gaussian(pos, c0, mass, nu, t0, dim).astype(real_t)
        for k in range(dim):
            sim.velocity_field[k] = real_t(U[k])
    t = 0.0
    steps = 0
    while t < T - 1e-12:
        dt = float(sim.compute_stable_timestep(dt_prefac=1.0))
        dt = min(dt, T - t)
        if kind == "ns2d":
            sim.time_step(dt=dt, free_stream_velocity=U)
        else:
            sim.time_step(dt=dt)
        t += dt
        steps += 1
        if steps > 20000:
            break
    c1 = c0 + U * T
    if kind == "ns2d":
        exact = lamb_oseen(pos, c1, gamma, nu, t0 + T)
        got = sim.vorticity_field.astype(np.float64)
    else:
        exact = gaussian(pos, c1, mass, nu, t0 + T, dim)
        got = sim.primary_field.astype(np.float64)
    dx = float(sim.dx)
    err = float(np.sqrt(np.sum((got - exact) ** 2) * dx**dim))
    norm = float(np.sqrt(np.sum(exact**2) * dx**dim))
    err_u = 0.0
    if kind == "ns2d":
        # the velocity is part of the Navier-Stokes solution: induced velocity of the vortex + free stream
        inner = (slice(None), slice(4, -4), slice(4, -4))
        u_exact = lamb_oseen_velocity(pos, c1, gamma, nu, t0 + T) + U.reshape(2, 1, 1)
        du = (sim.velocity_field.astype(np.float64) - u_exact)[inner]
        ref = (u_exact - U.reshape(2, 1, 1))[inner]
        err_u = float(np.sqrt(np.sum(du**2) / np.sum(ref**2)))
    return err / norm, steps, bool(np.all(np.isfinite(got))), err_u


def case_family(kind, resolutions, centre, strength, nu, direction, dtype, aspect="square", T=0.15, regime="advective"):
    fails = []
    errs = []
    errs_u = []
    for n in resolutions:
        e, steps, finite, eu = run_one(kind, n, centre, strength, nu, direction, dtype, aspect, T)
        errs.append(e)
        errs_u.append(eu)
        if not finite:
            fails.append(Fail(f"{kind}:nonfinite", "simulation produced non-finite values", n=n))
    key = f"{kind}|{dtype}"
    bounds = json.loads(BOUNDS_FILE.read_text()) if BOUNDS_FILE.exists() else {}
    if regime != "advective":
        bounds = {}  # the calibrated bounds belong to the advective families; the other regimes are decided by the order criteria
    ctx = dict(regime=regime, final_time=T, kind=kind, resolutions=list(resolutions), centre=centre, strength=strength, nu=nu, direction=direction, dtype=dtype, errors=errs, aspect=aspect, velocity_errors=errs_u)
    orders = []
    # (1) every refinement reduces the error; (2) every doubling of the resolution reduces it at order >= 0.5
    # (successive pairs are NOT required to show order 1: spatial (third-order, dissipative) and temporal
    # (first-order, anti-dissipative) errors have opposite signs and cancel differently at each resolution)
    for (n1, e1), (n2, e2) in zip(zip(resolutions, errs), zip(resolutions[1:], errs[1:])):
        order = float(np.log(e1 / e2) / np.log(n2 / n1)) if e2 > 0 and e1 > 0 else float("nan")
        orders.append(order)
        if not e2 < e1:
            fails.append(Fail(f"{kind}:not-decreasing", "L2 error does not decrease under refinement", n1=n1, n2=n2, **ctx))
    for i, n1 in enumerate(resolutions):
        for j, n2 in enumerate(resolutions):
            if n2 == 2 * n1:
                o = float(np.log(errs[i] / errs[j]) / np.log(2.0))
                if not o >= 0.5:
                    fails.append(Fail(f"{kind}:doubling-order", "doubling the resolution reduces the L2 error at less than order 0.5", n1=n1, n2=n2, observed_order=o, **ctx))
    # (3) first order over the whole ladder (coarsest -> finest)
    overall = float(np.log(errs[0] / errs[-1]) / np.log(resolutions[-1] / resolutions[0])) if errs[-1] > 0 else float("nan")
    if not overall >= 1 - 0.15:
        fails.append(Fail(f"{kind}:order", "L2 error does not decrease at first order under refinement (coarsest to finest grid of the ladder)", observed_order=overall, **ctx))
    orders.append(overall)
    for n, e, eu in zip(resolutions, errs, errs_u):
        b = bounds.get(f"{key}|{n}")
        if b is not None and not e <= b:
            fails.append(Fail(f"{kind}:error-bound", "relative L2 error exceeds the calibrated bound", n=n, error=e, bound=b, **ctx))
        bu = bounds.get(f"{key}|{n}|velocity")
        if kind == "ns2d" and bu is not None and not eu <= bu:
            fails.append(Fail(f"{kind}:velocity-error-bound", "relative L2 error of the velocity field exceeds the calibrated bound", n=n, error=eu, bound=bu, **ctx))
    if kind == "ns2d" and len(errs_u) > 1 and not errs_u[-1] < errs_u[0]:
        fails.append(Fail(f"{kind}:velocity-not-decreasing", "velocity error does not decrease from the coarsest to the finest grid", **ctx))
    return CaseResult(fails=fails, states=len(resolutions), transitions=len(resolutions), traces=len(resolutions), outcome=f"{kind}:{dtype}:{centre}:{nu}:{aspect}:{[round(o, 2) for o in orders]}",
                      extra={"errors": errs, "velocity_errors": errs_u, "orders": orders, "resolutions": list(resolutions), "aspect": aspect})


CASES = {"family": case_family}


def families(tier):
    out = []
    quick = tier == "quick"
    res = {"ns2d": [32, 64] if quick else [32, 48, 64, 96, 128], "pt2d": [32, 64] if quick else [32, 64, 128], "pt3ds": [16, 32] if quick else [16, 24, 32, 48]}
    centres = [[0.45, 0.4, 0.42]] if quick else [[0.45, 0.4, 0.42], [0.4, 0.45, 0.5]]
    strengths = [1.0] if quick else [1.0, 2.5]
    nus = [4e-3] if quick else [4e-3, 2e-3]
    # direction alphabet: all signs positive / all negative / axis-aligned (other components exactly zero) / mixed /
    # mixed with components that cancel exactly in the plane (sum u_i = 0 while sum |u_i| is not)
    dirs = [[1.0, 1.0, 0.5], [-1.0, -0.75, -0.5], [0.0, 1.0, 0.0], [1.0, -1.0, 0.5]] if quick else [[1.0, 1.0, 0.5], [-1.0, -0.75, -0.5], [0.0, 1.0, 0.0], [1.0, 0.0, 0.0], [1.0, -0.5, 0.25], [-1.0, 0.5, -0.5], [1.0, -1.0, 0.5], [-2.0, 1.0, 1.0]]
    dts = ["float64"] if quick else ["float64", "float32"]
    for kind in ("ns2d", "pt2d", "pt3ds"):
        for c, s, nu, d, dt in itertools.product(centres, strengths, nus, dirs, dts):
            out.append(dict(kind=kind, resolutions=res[kind], centre=c, strength=s, nu=nu, direction=d, dtype=dt))
    # non-square / non-cubic grids (dx unchanged, 3/2 as many cells along one axis), strong and weak vortex
    for kind in ("ns2d", "pt2d", "pt3ds"):
        for aspect in ("wide", "tall"):
            for s in ((1.0, 10.0) if kind == "ns2d" else (1.0,)):
                for dt in dts:
                    out.append(dict(kind=kind, resolutions=res[kind][:2] if quick else res[kind][:3], centre=centres[0], strength=s, nu=nus[0], direction=dirs[0], dtype=dt, aspect=aspect))
    # diffusion-limited regime (high viscosity, slow stream, longer run): the recommended step is set by the viscous limit,
    # which in 3-D is tighter than in 2-D; single precision reaches the unstable mode within the run
    for kind, res_v in (("pt3ds", [16, 32] if quick else [24, 48]), ("pt2d", [32, 64])):
        for dt in (("float32",) if quick else ("float32", "float64")):
            out.append(dict(kind=kind, resolutions=res_v, centre=centres[0], strength=1.0, nu=2e-2, direction=[0.25, 0.125, -0.2], dtype=dt, T=0.42, regime="viscous"))
    return out


def run(r) -> None:
    r.bind_model()
    fam = families(r.tier)
    fam.sort(key=lambda f: -max(f["resolutions"]) ** (2 if f["kind"] != "pt3ds" else 3))
    res = r.run_cases("refinement-families", "family", fam)
    r.level = "exploration"
    r.extra["rule"] = "one case per (problem, centre, strength, viscosity, direction, precision) family; non-trivial = a full refinement study with finite, non-zero errors at every resolution"
    r.extra["observed"] = [{"params": {k: f[k] for k in ("kind", "dtype", "nu")}, **(x["extra"] if x else {})} for f, x in list(zip(fam, res))[:12]]
    r.bounds = {"families": len(fam), "final_time": 0.15, "core_radius": CORE}
    r.assumptions = ["asymptotic claim checked on a finite family of resolutions (exploration level)", "error bounds calibrated on the unchanged tree with a factor-2 margin (checks/c02_bounds.json)"]
