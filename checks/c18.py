"""C18 - a run resumed from a checkpoint continues as the uninterrupted run would have.

crash/resume points: coupled runs (NS2D with forcing + moving/rotating rigid cylinder; NS3D with
forcing + sphere, optional filter / fast-diagonalisation solver) of K steps following the loop of the
upstream examples (stable dt, body sub-steps with body-force evaluation and forcing time_step,
interaction, flow step).  For EVERY checkpoint index k in 0..K the public state is written through
the IO layer, fresh simulator / body / interaction objects are built, the checkpoint is loaded,
scratch arrays are optionally poisoned (none / all / each single buffer) and the run continues to K;
the whole suffix trajectory must equal the uninterrupted one up to rounding.
Restart helper: every subset of checkpoint names {0, 3, 10} x body time equal/different.
"""

from __future__ import annotations

import itertools
import os
import shutil
import tempfile

import numpy as np

from harness import bodies, explore, lagcomm, simcfg
from harness.core import CaseResult, Fail


def _scratch():
    return tempfile.mkdtemp(prefix="verif_c18_", dir=os.environ.get("TMPDIR") or "/var/tmp")


class Coupled:
    """One coupled flow-body system built from a configuration (fresh objects every time)."""

    def __init__(self, cfg, time=0.0):
        import sopht.simulator as sps

        self.io_kind = cfg.get("io_kind", "field")
        c = simcfg.normalise({k: v for k, v in cfg.items() if k != "io_kind"})
        self.c = c
        self.dim = simcfg.dim_of(c["kind"])
        dx = lagcomm.DXS[0]
        c["shape"] = lagcomm.SHAPES[self.dim]
        c["x_range"] = dx * c["shape"][-1]
        c["forcing"] = True
        self.real_t = np.dtype(c["dtype"]).type
        self.sim = simcfg.make_sim(c)
        self.sim.time = time
        shape = c["shape"]
        centre = np.array([shape[-1] * dx * 0.45, shape[-2] * dx * 0.5, shape[0] * dx * 0.5 if self.dim == 3 else 0.0])
        if self.dim == 2:
            self.body, _ = bodies.make_rigid("cylinder2d", bodies.rotations_2d()[4], centre)
            cls, kw = sps.CircularCylinderForcingGrid, {"num_forcing_points": 8}
            self.body.velocity_collection[:, 0] = [0.35, -0.2, 0.0]
            self.body.omega_collection[:, 0] = [0.0, 0.0, 1.3]
        else:
            self.body, _ = bodies.make_rigid("sphere", bodies.rotations_3d()[25], centre)
            cls, kw = sps.SphereForcingGrid, {"num_forcing_points_along_equator": 6}
            self.body.velocity_collection[:, 0] = [0.3, -0.2, 0.15]
            self.body.omega_collection[:, 0] = [0.4, -0.6, 0.9]
        self.inter = sps.RigidBodyFlowInteraction(
            rigid_body=self.body, eul_grid_forcing_field=self.sim.eul_grid_forcing_field, eul_grid_velocity_field=self.sim.velocity_field,
            virtual_boundary_stiffness_coeff=-20.0, virtual_boundary_damping_coeff=-2.0, dx=self.sim.dx, grid_dim=self.dim, real_t=self.real_t,
            forcing_grid_cls=cls, start_time=time, **kw)
        self.free_stream = simcfg.free_stream(c) if c["stream"] else None

    def init_state(self, seed):
        simcfg.load_state(self.sim, self.c, "bump", "zero", "none", margin=3, seed=seed)
        # a consistent initial velocity: one Poisson solve through a zero-dt-like step is not available
        # publicly, so start from zero velocity + the bump of vorticity (the first step recovers velocity)

    def stream_at(self, j):
        """Free stream of global step j: with schedule 'drop' the free stream falls to a quarter from step 3 on, so the
        advective time-step limit jumps up in one step (inputs of a step may change abruptly; the run must not
        remember how fast its time step was allowed to grow)."""
        if self.free_stream is None:
            return None
        if self.c.get("schedule") == "drop" and j is not None and j >= 3:
            return self.free_stream * 0.25
        return self.free_stream

    def step(self, j=None):
        from elastica.rod.data_structures import overload_operator_kinematic_numba

        sim, inter, b = self.sim, self.inter, self.body
        dt = float(min(sim.compute_stable_timestep(dt_prefac=0.5), 0.02))
        sub = 2
        for _ in range(sub):
            overload_operator_kinematic_numba(dt / sub, b.position_collection, b.director_collection, b.velocity_collection, b.omega_collection)
            inter.compute_flow_forces_and_torques()  # what FlowForces does inside the body stepper
            inter.time_step(dt=dt / sub)
        inter()
        kw = {"free_stream_velocity": self.stream_at(j)} if self.free_stream is not None else {}
        sim.time_step(dt=dt, **kw)
        return dt

    # ---- public state
    def public(self):
        b = self.body
        return {
            "vorticity": self.sim.vorticity_field.copy(), "velocity": self.sim.velocity_field.copy(), "time": float(self.sim.time),
            "pos_mismatch": self.inter.lag_grid_position_mismatch_field.copy(), "vel_mismatch": self.inter.lag_grid_velocity_mismatch_field.copy(),
            "forcing_time": float(self.inter.time),
            "body": np.concatenate([b.position_collection.ravel(), b.director_collection.ravel(), b.velocity_collection.ravel(), b.omega_collection.ravel()]),
        }

    def ios(self):
        import sopht.utils as spu

        if self.io_kind == "plain":
            # the base IO class with its DEFAULT precision (float64), whatever the simulator's precision is
            io = spu.IO(dim=self.dim)
            dx = float(self.sim.dx)
            io.define_eulerian_grid(origin=np.full(self.dim, dx / 2), dx=np.full(self.dim, dx), grid_size=np.array(self.c["shape"]))
            io.add_as_eulerian_fields_for_io(vorticity=self.sim.vorticity_field, velocity=self.sim.velocity_field)
            fio = spu.IO(dim=self.dim)
        else:
            io = spu.EulerianFieldIO(position_field=self.sim.position_field, eulerian_fields_dict={"vorticity": self.sim.vorticity_field, "velocity": self.sim.velocity_field})
            fio = spu.IO(dim=self.dim, real_dtype=self.real_t)
        fio.add_as_lagrangian_fields_for_io(lagrangian_grid=self.inter.forcing_grid.position_field, lagrangian_grid_name="body",
                                            position_mismatch=self.inter.lag_grid_position_mismatch_field, velocity_mismatch=self.inter.lag_grid_velocity_mismatch_field)
        return io, fio

    def save(self, d, k):
        io, fio = self.ios()
        io.save(h5_file_name=os.path.join(d, f"sopht_{k:04d}.h5"), time=self.sim.time)
        fio.save(h5_file_name=os.path.join(d, f"forcing_grid_{k:04d}.h5"), time=self.sim.time)
        b = self.body
        np.savez(os.path.join(d, f"body_{k:04d}.npz"), p=b.position_collection, q=b.director_collection, v=b.velocity_collection, w=b.omega_collection)

    @classmethod
    def resume(cls, cfg, d, k):
        import h5py

        with h5py.File(os.path.join(d, f"sopht_{k:04d}.h5"), "r") as f:
            t = float(f.attrs["time"])
        s = cls(cfg, time=t)
        z = np.load(os.path.join(d, f"body_{k:04d}.npz"))
        b = s.body
        b.position_collection[...] = z["p"]
        b.director_collection[...] = z["q"]
        b.velocity_collection[...] = z["v"]
        b.omega_collection[...] = z["w"]
        io, fio = s.ios()
        t1 = io.load(h5_file_name=os.path.join(d, f"sopht_{k:04d}.h5"))
        t2 = fio.load(h5_file_name=os.path.join(d, f"forcing_grid_{k:04d}.h5"))
        s.sim.time = float(t1)
        assert float(t2) == float(t1)
        return s

    def scratch_arrays(self):
        """Every non-public array: name -> ndarray (views allowed)."""
        out = {}
        sim = self.sim
        for name in ("buffer_scalar_field", "buffer_vector_field", "stream_func_field"):
            if hasattr(sim, name):
                out[f"sim.{name}"] = getattr(sim, name)
        ps_ = sim._unbounded_poisson_solver
        for k, v in vars(ps_).items():
            if isinstance(v, np.ndarray) and ("buffer" in k):
                out[f"poisson.{k}"] = v
        for k in ("nearest_eul_grid_index_to_lag_grid", "local_eul_grid_support_of_lag_grid", "interp_weights", "lag_grid_flow_velocity_field", "lag_grid_forcing_field"):
            out[f"inter.{k}"] = getattr(self.inter, k)
        out["inter.body_flow_forces"] = self.inter.body_flow_forces
        out["inter.body_flow_torques"] = self.inter.body_flow_torques
        g = self.inter.forcing_grid
        out["grid.velocity_field"] = g.velocity_field
        return out

    def poison(self, which):
        arrs = self.scratch_arrays()
        names = list(arrs) if which == "all" else ([] if which == "none" else [which])
        for n in names:
            a = arrs[n]
            if a.dtype.kind == "i":
                a[...] = 3  # a valid but wrong index
            elif a.dtype.kind == "c":
                a[...] = complex(np.nan, 1e30)
            else:
                a[...] = np.nan if not n.startswith("sim.buffer") else 1e30
        return names


class CoupledRod(Coupled):
    """Flow + Cosserat rod stepped by PyElastica's own PositionVerlet with FlowForces attached (the
    upstream restart example's set-up): 2-D edge forcing grid / 3-D surface forcing grid."""

    def __init__(self, cfg, time=0.0):
        import elastica as ea
        import sopht.simulator as sps

        self.io_kind = cfg.get("io_kind", "field")
        c = simcfg.normalise({k: v for k, v in cfg.items() if k != "io_kind"})
        self.c = c
        self.dim = simcfg.dim_of(c["kind"])
        dx = lagcomm.DXS[0]
        c["shape"] = lagcomm.SHAPES[self.dim]
        c["x_range"] = dx * c["shape"][-1]
        c["forcing"] = True
        self.real_t = np.dtype(c["dtype"]).type
        self.sim = simcfg.make_sim(c)
        self.sim.time = time
        shape = c["shape"]
        start = np.array([shape[-1] * dx * 0.3, shape[-2] * dx * 0.5, shape[0] * dx * 0.5 if self.dim == 3 else 0.0])

        class _Sim(ea.BaseSystemCollection, ea.Constraints, ea.Forcing, ea.Damping):
            pass

        self.body = ea.CosseratRod.straight_rod(n_elements=3, start=start, direction=np.array([1.0, 0.0, 0.0]), normal=np.array([0.0, 1.0, 0.0]),
                                                base_length=0.6, base_radius=0.05, density=1e3, youngs_modulus=1e5, shear_modulus=1e5 / 1.5)
        self.body.velocity_collection[1, :] = 0.2 * np.arange(4)  # the rod swings
        if self.dim == 3:
            self.body.omega_collection[0, :] = 0.8
        self.env = _Sim()
        self.env.append(self.body)
        if self.dim == 2:
            cls, kw = sps.CosseratRodEdgeForcingGrid, {}
        else:
            cls, kw = sps.CosseratRodSurfaceForcingGrid, {"surface_grid_density_for_largest_element": 4}
        self.inter = sps.CosseratRodFlowInteraction(
            cosserat_rod=self.body, eul_grid_forcing_field=self.sim.eul_grid_forcing_field, eul_grid_velocity_field=self.sim.velocity_field,
            virtual_boundary_stiffness_coeff=-20.0, virtual_boundary_damping_coeff=-2.0, dx=self.sim.dx, grid_dim=self.dim, real_t=self.real_t,
            forcing_grid_cls=cls, start_time=time, **kw)
        self.env.add_forcing_to(self.body).using(sps.FlowForces, self.inter)
        self.env.dampen(self.body).using(ea.AnalyticalLinearDamper, damping_constant=0.5, time_step=1e-3)
        self.env.finalize()
        self.stepper = ea.PositionVerlet()
        self.free_stream = simcfg.free_stream(c) if c["stream"] else None
        self.body_time = time

    def step(self, j=None):
        sim, inter = self.sim, self.inter
        dt = float(min(sim.compute_stable_timestep(dt_prefac=0.5), 0.02))
        sub = 3
        for _ in range(sub):
            self.body_time = float(self.stepper.step(self.env, self.body_time, dt / sub))
            inter.time_step(dt=dt / sub)
        inter()
        kw = {"free_stream_velocity": self.stream_at(j)} if self.free_stream is not None else {}
        sim.time_step(dt=dt, **kw)
        return dt

    def _body_arrays(self):
        return {k: v for k, v in vars(self.body).items() if isinstance(v, np.ndarray)}

    def public(self):
        b = self.body
        return {
            "vorticity": self.sim.vorticity_field.copy(), "velocity": self.sim.velocity_field.copy(), "time": float(self.sim.time),
            "pos_mismatch": self.inter.lag_grid_position_mismatch_field.copy(), "vel_mismatch": self.inter.lag_grid_velocity_mismatch_field.copy(),
            "forcing_time": float(self.inter.time),
            "body": np.concatenate([b.position_collection.ravel(), b.director_collection.ravel(), b.velocity_collection.ravel(), b.omega_collection.ravel()]),
        }

    def save(self, d, k):
        io, fio = self.ios()
        io.save(h5_file_name=os.path.join(d, f"sopht_{k:04d}.h5"), time=self.sim.time)
        fio.save(h5_file_name=os.path.join(d, f"forcing_grid_{k:04d}.h5"), time=self.sim.time)
        np.savez(os.path.join(d, f"body_{k:04d}.npz"), **self._body_arrays())

    @classmethod
    def resume(cls, cfg, d, k):
        import h5py

        with h5py.File(os.path.join(d, f"sopht_{k:04d}.h5"), "r") as f:
            t = float(f.attrs["time"])
        s = cls(cfg, time=t)
        z = np.load(os.path.join(d, f"body_{k:04d}.npz"))
        for name, arr in s._body_arrays().items():
            if name in z.files and z[name].shape == arr.shape:
                arr[...] = z[name]
        io, fio = s.ios()
        t1 = io.load(h5_file_name=os.path.join(d, f"sopht_{k:04d}.h5"))
        fio.load(h5_file_name=os.path.join(d, f"forcing_grid_{k:04d}.h5"))
        s.sim.time = float(t1)
        s.body_time = float(t1)
        return s

    def scratch_arrays(self):
        out = Coupled.scratch_arrays(self)
        g = self.inter.forcing_grid
        for k, v in vars(g).items():
            if isinstance(v, np.ndarray) and k not in ("position_field",) and v.dtype.kind == "f" and k not in ("local_frame_surface_points", "grid_point_radius_ratio", "z_vector"):
                # element_forces_*_edge_nodes: only the in-plane rows are scratch (row 2 is a constant zero
                # that no call rewrites; poisoning it would not model hidden state but corrupt a constant)
                out[f"grid.{k}"] = v[: self.dim] if k.startswith("element_forces_") else v
        return out


def _cmp(fails, tag, got, want, eps, ctx):
    for key in ("vorticity", "velocity", "pos_mismatch", "vel_mismatch", "body"):
        g, w = got[key].astype(np.float64), want[key].astype(np.float64)
        scale = float(np.abs(w).max()) + 1e-300
        dev = np.abs(g - w).max() if np.all(np.isfinite(g)) else np.inf
        if not dev <= 4096 * eps * scale + (1e-14 if key == "body" else 0):
            fails.append(Fail(f"{tag}:{key}", f"resumed run differs from the uninterrupted run in '{key}'", dev=float(dev), scale=scale, **ctx))
    for key in ("time", "forcing_time"):
        if not abs(got[key] - want[key]) <= 1e-12 * max(1.0, abs(want[key])):
            fails.append(Fail(f"{tag}:{key}", f"resumed run differs from the uninterrupted run in '{key}'", got=got[key], want=want[key], **ctx))


def case_resume(cfg, K, poisons, seed):
    c = simcfg.normalise({k: v for k, v in cfg.items() if k not in ("body", "io_kind", "schedule")})
    eps = float(np.finfo(np.dtype(c["dtype"]).type).eps)
    d = _scratch()
    fails = []
    states = trans = 0
    tag = f"resume:{c['kind']}"
    Cls = CoupledRod if cfg.get("body") == "rod" else Coupled
    cfg = {k: v for k, v in cfg.items() if k != "body"}
    try:
        run = Cls(cfg)
        run.init_state(seed)
        traj = [run.public()]
        run.save(d, 0)
        dts = []
        for k in range(1, K + 1):
            dts.append(run.step(k))
            traj.append(run.public())
            run.save(d, k)
            trans += 1
        if not np.any(traj[-1]["pos_mismatch"] != 0) or not np.any(traj[-1]["velocity"] != 0):
            from harness.interp import HarnessError

            raise HarnessError("C18 vacuous run: no interaction / no flow")
        scratch_names = ["none", "all"] + (list(Cls(cfg).scratch_arrays()) if poisons == "each" else [])
        for k in range(0, K + 1):
            for which in scratch_names:
                if which not in ("none", "all") and k not in (1, K - 1):
                    continue  # single-buffer poisoning at two representative checkpoints
                res = Cls.resume(cfg, d, k)
                ctx = dict(cfg=c, checkpoint=k, poisoned=which)
                _cmp(fails, f"{tag}:at-load", res.public(), traj[k], 0.0, ctx)
                res.poison(which)
                for j in range(k + 1, K + 1):
                    res.step(j)
                    trans += 1
                    _cmp(fails, f"{tag}:suffix", res.public(), traj[j], eps, dict(step=j, **ctx))
                states += 1
    finally:
        shutil.rmtree(d, ignore_errors=True)
    return CaseResult(fails=fails, states=states, transitions=trans, traces=states, outcome=f"{c['kind']}:{c['dtype']}:{states}", extra={"checkpoints": K + 1, "poison_variants": len(scratch_names), "dt_max_over_min": float(max(dts) / min(dts))})


BODY_TIME_GAPS = ["+0.125", "+1ulp", "-1ulp", "+1e-9rel", "-1e-6rel", "+1e-4"]  # ways the body time can disagree with the flow time


def case_helper(present, body_time_equal, gap="+0.125"):
    """Restart helper: picks the largest index, returns its time, refuses when nothing exists or
    flow and body times disagree."""
    import elastica as ea
    import sopht.utils as spu

    class Sim(ea.BaseSystemCollection, ea.Constraints, ea.Forcing, ea.Damping):
        pass

    def mk():
        s = Sim()
        cyl = ea.Cylinder(start=np.zeros(3), direction=np.array([0.0, 0, 1]), normal=np.array([1.0, 0, 0]), base_length=1.0, base_radius=0.1, density=1e3)
        s.append(cyl)
        s.finalize()
        return s, cyl

    fails = []
    d = _scratch()
    cwd = os.getcwd()
    times = {i: 0.25 * i for i in present}
    try:
        os.chdir(d)
        shape = (5, 6)

        def ios(fill):
            vort = np.full(shape, fill)
            io = spu.IO(dim=2, real_dtype=np.float64)
            io.define_eulerian_grid(origin=np.array([0.1, 0.1]), dx=np.array([0.2, 0.2]), grid_size=np.array(shape))
            io.add_as_eulerian_fields_for_io(vorticity=vort)
            grid = np.full((2, 4), fill)
            rio = spu.IO(dim=2, real_dtype=np.float64)
            rio.add_as_lagrangian_fields_for_io(lagrangian_grid=grid, lagrangian_grid_name="rod", radius=np.full(4, fill))
            fgrid = np.full((2, 3), fill)
            fio = spu.IO(dim=2, real_dtype=np.float64)
            fio.add_as_lagrangian_fields_for_io(lagrangian_grid=fgrid, lagrangian_grid_name="f", mismatch=np.full((2, 3), fill))
            return io, rio, fio, vort, grid, fgrid

        for idx in present:  # creation order as given (directory listing order is not ours to choose)
            io, rio, fio, *_ = ios(float(idx) + 0.5)
            io.save(h5_file_name=f"sopht_{idx:04d}.h5", time=times[idx])
            rio.save(h5_file_name=f"rod_{idx:04d}.h5", time=times[idx])
            fio.save(h5_file_name=f"forcing_grid_{idx:04d}.h5", time=times[idx])
        latest = max(present) if present else None
        s, cyl = mk()
        body_t = times[latest] if latest is not None else 0.0
        if not body_time_equal:
            # "disagree" means any difference at all: a restart that pairs flow fields with the body state of a
            # neighbouring instant is what the refusal exists to prevent
            if gap.endswith("ulp"):
                body_t = float(np.nextafter(body_t, np.inf if gap[0] == "+" else -np.inf))
            elif gap.endswith("rel"):
                body_t = body_t * (1.0 + float(gap[:-3])) if body_t != 0 else float(gap[:-3])
            else:
                body_t = body_t + float(gap)
        cyl.position_collection[0, 0] = 0.37
        ea.save_state(s, "restart_data", body_t)
        s2, cyl2 = mk()
        io, rio, fio, vort, grid, fgrid = ios(-1.0)
        import contextlib
        import io as _io

        try:
            with contextlib.redirect_stdout(_io.StringIO()):
                t = spu.restart_simulation(restart_simulator=s2, io=io, rod_io=rio, forcing_io=fio, restart_dir="restart_data")
            raised = None
        except Exception as e:  # noqa: BLE001
            t, raised = None, e
        ctx = dict(present=list(present), body_time_equal=body_time_equal, gap=None if body_time_equal else gap, flow_time=times[latest] if latest is not None else None, body_time=body_t)
        if not present:
            if not isinstance(raised, FileNotFoundError):
                fails.append(Fail("helper:no-checkpoint", "restart helper did not raise FileNotFoundError although no checkpoint exists", got=repr(raised) if raised else f"returned {t}", **ctx))
        elif not body_time_equal:
            if not isinstance(raised, ValueError):
                fails.append(Fail("helper:time-disagreement", "restart helper did not refuse although flow and body times disagree", got=repr(raised) if raised else f"returned {t}", **ctx))
        else:
            if raised is not None:
                fails.append(Fail("helper:unexpected-exception", "restart helper raised although a consistent checkpoint exists", got=repr(raised), **ctx))
            else:
                if float(t) != times[latest]:
                    fails.append(Fail("helper:returned-time", "restart helper did not return the time of the latest checkpoint", got=float(t), want=times[latest], **ctx))
                if not (np.all(vort == latest + 0.5) and np.all(grid == latest + 0.5) and np.all(fgrid == latest + 0.5)):
                    fails.append(Fail("helper:latest-checkpoint", "restart helper did not load the checkpoint with the largest index", loaded=float(vort.ravel()[0]), want=latest + 0.5, **ctx))
                if cyl2.position_collection[0, 0] != 0.37:
                    fails.append(Fail("helper:body-state", "restart helper did not load the body state", **ctx))
    finally:
        os.chdir(cwd)
        shutil.rmtree(d, ignore_errors=True)
    return CaseResult(fails=fails, states=1, transitions=1, traces=1, outcome=f"helper:{sorted(present)}:{body_time_equal}:{gap if not body_time_equal else ''}")


CASES = {"resume": case_resume, "helper": case_helper}


def run(r) -> None:
    r.bind_model()
    quick = r.tier == "quick"
    K = 4 if quick else 6
    cases = []
    ns = {"stream": [True, False], "width": [2, 0, 1, 3], "dtype": ["float64", "float32"], "io_kind": ["field", "plain"], "params": [[1e-2, 5e-2, 1.7], [1e-2, 5e-3, 1.0]]}
    lat = {"ns2d": ns, "ns3d": {**ns, "filter": [None, ["multiplicative", 1], ["convolution", 2], ["multiplicative", 2]], "poisson": ["greens", "fastdiag"]}}
    for kind, axes in lat.items():
        for i, pt in enumerate(explore.lattice(axes, 1 if quick else 2)):
            cases.append(dict(cfg={"kind": kind, **pt}, K=K, poisons="each" if i == 0 or (not quick and i < 6) else "all", seed=r.seed))
    # the base IO class with default (double) precision on single-precision simulators, and vice versa
    for kind in ("ns2d", "ns3d"):
        cases.append(dict(cfg={"kind": kind, "dtype": "float32", "io_kind": "plain", "stream": True, "params": [1e-2, 5e-2, 1.7]}, K=K, poisons="all", seed=r.seed))
    # Cosserat rods stepped by PyElastica (FlowForces inside the body stepper), edge grid in 2-D, surface grid in 3-D
    for kind in ("ns2d", "ns3d"):
        for dt_ in (("float64",) if quick else ("float64", "float32")):
            cases.append(dict(cfg={"kind": kind, "body": "rod", "dtype": dt_, "stream": True, "params": [1e-2, 5e-2, 1.7]}, K=K, poisons="each" if dt_ == "float64" else "all", seed=r.seed))
    # inputs that change abruptly during the run: the free stream drops to a quarter at step 3 (the stable time step
    # jumps up; nothing about earlier time steps may be remembered outside the checkpoint)
    for kind in ("ns2d", "ns3d"):
        cases.append(dict(cfg={"kind": kind, "dtype": "float64", "stream": True, "schedule": "drop", "params": [1e-2, 5e-3, 1.0]}, K=max(K, 5), poisons="all", seed=r.seed))
    cases.append(dict(cfg={"kind": "ns2d", "body": "rod", "dtype": "float64", "stream": True, "schedule": "drop", "params": [1e-2, 5e-3, 1.0]}, K=max(K, 5), poisons="all", seed=r.seed))
    cases.sort(key=lambda c: (c["cfg"].get("body") != "rod", c["poisons"] != "each", c["cfg"]["kind"] != "ns3d"))
    r.run_cases("resume", "resume", cases)
    names = [0, 3, 10]
    helper = [dict(present=list(sub), body_time_equal=eq) for n in range(len(names) + 1) for sub in itertools.combinations(names, n) for eq in (True, False)]
    # every kind of disagreement (down to one ulp) at small and large checkpoint times
    helper += [dict(present=list(sub), body_time_equal=False, gap=g) for sub in ([1], [0, 7], [3, 100], [12345]) for g in BODY_TIME_GAPS[1:]]
    # larger name alphabet, every creation order: the listing order of the directory must not matter
    more = [1, 7, 25, 100, 2048, 9999, 10000, 12345]  # incl. indices with more digits than the zero padding
    for n in (2, 3):
        for sub in itertools.combinations(more, n):
            for perm in itertools.permutations(sub):
                helper.append(dict(present=list(perm), body_time_equal=True))
    r.run_cases("restart-helper", "helper", helper)
    r.bounds = {"K": K, "checkpoints": "every k in 0..K", "poison": ["none", "all", "each single scratch array (two checkpoints)"], "configurations": len(cases), "helper_subsets": "all 8 subsets of {0,3,10} x body time equal/different + all 2-/3-subsets of {1,7,25,100,2048,9999,10000,12345} in every creation order", "body_time": ["equal", "different"]}
    r.extra["rule"] = "one state per (configuration, checkpoint index, poison variant): fresh objects + load + continue; every later step compared with the uninterrupted trajectory"
    r.assumptions = ["body arrays are copied by the harness (PyElastica's own restart is exercised only inside the restart helper, on a rigid-cylinder system for which save/load round-trips)",
                     "prescribed rigid-body kinematics (PyElastica kinematic update); a fresh FFTW plan may round differently: 4096 eps tolerance"]
