"""C20 - time-stepping kernels realise their nominal integration scheme.

basis : for a frozen generic velocity, EVERY unit vorticity impulse (component x cell) of a small
        non-cubic grid is pushed through the real SSP-RK3 and Euler stretching kernels; the Euler
        flux operator A (full-step prefactor) is collected as a matrix from the library's own flux
        kernel, and the outputs must equal (I + A + A^2/2 + A^3/6) e resp. (I + A) e.  No stage
        coefficient is transcribed: the polynomial is built by repeated application of A.
exact : Euler-forward advection (2-D, 3-D scalar/vector) and diffusion (2-D, 3-D scalar/vector)
        kernels on Fraction arrays: result == field + flux(field) with the library's own flux
        kernel, for every velocity sign pattern of the alphabet, compared with ``==``.
"""

from __future__ import annotations

import itertools
from fractions import Fraction

import numpy as np

from harness.core import CaseResult, Fail


def _velocity(shape, k, dtype=np.float64):
    n = int(np.prod(shape))
    i = np.arange(3 * n, dtype=np.float64)
    if k == 0:
        v = np.sin(0.7 * i + 0.3) + 0.25 * np.cos(1.3 * i)
    else:
        v = ((i * 11 + 5) % 13) / 6.5 - 1.0 + 0.1 * np.sin(i)
    return v.reshape((3, *shape)).astype(dtype)


def case_ssprk3(shape, vel, c, dtype):
    import sopht.numeric.eulerian_grid_ops as spne

    dtype = np.dtype(dtype).type
    shape = tuple(shape)
    n = 3 * int(np.prod(shape))
    fails = []
    velocity = _velocity(shape, vel, dtype)
    vel0 = velocity.copy()
    flux_k = spne.gen_vorticity_stretching_flux_pyst_kernel_3d(real_t=dtype)
    midstep = np.zeros((3, *shape), dtype=dtype)
    rk3 = spne.gen_vorticity_stretching_timestep_ssprk3_pyst_kernel_3d(real_t=dtype, midstep_buffer_vector_field=midstep)
    euler = spne.gen_vorticity_stretching_timestep_euler_forward_pyst_kernel_3d(real_t=dtype)
    A = np.zeros((n, n))
    out_rk3 = np.zeros((n, n))
    out_eu = np.zeros((n, n))
    flux = np.zeros((3, *shape), dtype=dtype)
    trans = 0
    for j in range(n):
        e = np.zeros(n, dtype=dtype)
        e[j] = 1
        w = e.reshape((3, *shape)).copy()
        flux[...] = np.nan
        flux_k(vorticity_stretching_flux_field=flux, vorticity_field=w, velocity_field=velocity, prefactor=dtype(c))
        A[:, j] = flux.ravel()
        w = e.reshape((3, *shape)).copy()
        flux[...] = np.nan  # scratch contents must not matter
        midstep[...] = np.nan
        rk3(vorticity_field=w, velocity_field=velocity, vorticity_stretching_flux_field=flux, dt_by_2_dx=dtype(c))
        out_rk3[:, j] = w.ravel()
        w = e.reshape((3, *shape)).copy()
        flux[...] = np.nan
        euler(vorticity_field=w, velocity_field=velocity, vorticity_stretching_flux_field=flux, dt_by_2_dx=dtype(c))
        out_eu[:, j] = w.ravel()
        trans += 3
    if not np.array_equal(velocity, vel0):
        fails.append(Fail("stretching:velocity-modified", "a stretching time-step kernel modified the velocity field"))
    eye = np.eye(n)
    A2 = A @ A
    A3 = A2 @ A
    want = eye + A + A2 / 2 + A3 / 6
    eps = np.finfo(dtype).eps
    tol = 64 * eps * max(1.0, np.abs(want).max())
    dev = np.abs(out_rk3 - want)
    nonzero_A = int(np.count_nonzero(A))
    if not np.all(np.isfinite(out_rk3)) or dev.max() > tol:
        i, j = np.unravel_index(np.nanargmax(np.where(np.isfinite(dev), dev, np.inf)), dev.shape)
        alt = eye + 2 * A / 3 + A2 / 3 + A3 / 12
        fails.append(Fail(
            "ssprk3:polynomial",
            "SSP-RK3 stretching step != (I + A + A^2/2 + A^3/6) applied to the vorticity (A = Euler flux operator for the full step)",
            shape=shape, c=c, dtype=dtype, column=int(j), row=int(i), got=out_rk3[i, j], want=want[i, j], max_dev=float(np.nanmax(dev)), tol=tol,
            matches_half_step_third_stage=bool(np.abs(out_rk3 - alt).max() <= tol),
        ))
    dev_e = np.abs(out_eu - (eye + A))
    if not np.all(np.isfinite(out_eu)) or dev_e.max() > 4 * eps * max(1.0, np.abs(A).max()):
        fails.append(Fail("stretching-euler:step", "Euler-forward stretching step != field + flux(field) for the step given", shape=shape, c=c, max_dev=float(np.nanmax(dev_e))))
    # negative control: the oracle must distinguish the exponential polynomial from a perturbed one
    if np.abs((eye + A + A2 / 2 + A3 / 6.6) - want).max() <= tol:
        from harness.interp import HarnessError

        raise HarnessError("C20 control: operator too small to distinguish cubic coefficients")
    return CaseResult(fails=fails, states=n, transitions=trans, traces=trans, outcome=f"rk3:{shape}:{vel}:{c}:{nonzero_A}",
                      extra={"matrix": [n, n], "nonzero_entries_of_A": nonzero_A, "max_dev_rk3": float(np.nanmax(dev)), "tol": tol})


# ------------------------------------------------------------------------------- exact Euler kernels
def _frac_field(shape, k):
    n = int(np.prod(shape))
    vals = [Fraction(((7 * i + 3 * k) % 11) - 5, 4) + Fraction(1, 3) * (i % 3) for i in range(n)]
    a = np.empty(n, dtype=object)
    a[:] = vals
    return a.reshape(shape)


VEL_ALPHABET = [Fraction(-2), Fraction(-1), Fraction(0), Fraction(1), Fraction(2), Fraction(1, 2)]


def _frac_velocity(dim, shape, k):
    """Velocity drawn cell by cell from the alphabet so that every pair of neighbouring values
    (all sign patterns incl. exact ties u_i == -u_{i+1}) occurs."""
    n = int(np.prod(shape))
    m = len(VEL_ALPHABET)
    out = np.empty((dim, *shape), dtype=object)
    for d in range(dim):
        vals = [VEL_ALPHABET[((i * (k + 2) + (i // m) * (d + 1) + d) % m)] for i in range(n)]
        a = np.empty(n, dtype=object)
        a[:] = vals
        out[d] = a.reshape(shape)
    return out


def case_euler_exact(kind, dim, field_type, pattern, shape=None, fixed=False):
    import sopht.numeric.eulerian_grid_ops as spne

    real_t = np.float64
    shape = tuple(shape) if shape is not None else ((7, 8) if dim == 2 else (6, 7, 8))
    fails = []
    s = f"_{dim}d"
    trans = 0
    c = Fraction(3, 7) if pattern % 2 == 0 else Fraction(1, 10)
    kw = {} if dim == 2 else {"field_type": field_type}
    if fixed:  # as the simulators call the generators
        kw["fixed_grid_size"] = shape
    ncomp = 3 if field_type == "vector" else 1
    fields = [_frac_field(shape, pattern + 5 * q) for q in range(ncomp)]
    if kind == "advection":
        step = getattr(spne, f"gen_advection_timestep_euler_forward_conservative_eno3_pyst_kernel{s}")(real_t=real_t, **kw)
        fluxgen = getattr(spne, f"gen_advection_flux_conservative_eno3_pyst_kernel{s}")(real_t=real_t)
        velocity = _frac_velocity(dim, shape, pattern)
        want = []
        for f in fields:
            fb = np.zeros(shape, dtype=object)
            fb[...] = Fraction(0)
            fluxgen(advection_flux=fb, field=f.copy(), velocity=velocity.copy(), inv_dx=-c)
            want.append(f + fb)
            trans += 1
        buf = np.empty(shape, dtype=object)
        buf[...] = Fraction(977, 3)  # garbage: must be reset by the kernel
        vel_in = velocity.copy()
        if field_type == "vector":
            arr = np.stack(fields)
            step(vector_field=arr, advection_flux=buf, velocity=vel_in, dt_by_dx=c)
            got = [arr[q] for q in range(3)]
        else:
            arr = fields[0].copy()
            step(field=arr, advection_flux=buf, velocity=vel_in, dt_by_dx=c)
            got = [arr]
        trans += 1
        if not np.all(vel_in == velocity):
            fails.append(Fail(f"advection{s}:velocity-modified", "advection step modified the velocity"))
    else:
        step = getattr(spne, f"gen_diffusion_timestep_euler_forward_pyst_kernel{s}")(real_t=real_t, **kw)
        fluxgen = getattr(spne, f"gen_diffusion_flux_pyst_kernel{s}")(real_t=real_t)
        want = []
        for f in fields:
            fb = np.empty(shape, dtype=object)
            fb[...] = Fraction(0)
            fluxgen(diffusion_flux=fb, field=f.copy(), prefactor=c)
            want.append(f + fb)
            trans += 1
        buf = np.empty(shape, dtype=object)
        buf[...] = Fraction(977, 3)
        if field_type == "vector":
            arr = np.stack(fields)
            step(vector_field=arr, diffusion_flux=buf, nu_dt_by_dx2=c)
            got = [arr[q] for q in range(3)]
        else:
            arr = fields[0].copy()
            step(field=arr, diffusion_flux=buf, nu_dt_by_dx2=c)
            got = [arr]
        trans += 1
    # ---- history: a second call on the SAME kernel object with the SAME scratch-buffer object,
    # dirtied in between (ring included), on a different field
    fields2 = [_frac_field(shape, pattern + 3 + 5 * q) for q in range(ncomp)]
    buf[...] = Fraction(-55, 7)
    want2 = []
    if kind == "advection":
        for f in fields2:
            fb = np.zeros(shape, dtype=object)
            fb[...] = Fraction(0)
            fluxgen(advection_flux=fb, field=f.copy(), velocity=velocity.copy(), inv_dx=-c)
            want2.append(f + fb)
        if field_type == "vector":
            arr2 = np.stack(fields2)
            step(vector_field=arr2, advection_flux=buf, velocity=vel_in, dt_by_dx=c)
            got2 = [arr2[q] for q in range(3)]
        else:
            arr2 = fields2[0].copy()
            step(field=arr2, advection_flux=buf, velocity=vel_in, dt_by_dx=c)
            got2 = [arr2]
    else:
        for f in fields2:
            fb = np.empty(shape, dtype=object)
            fb[...] = Fraction(0)
            fluxgen(diffusion_flux=fb, field=f.copy(), prefactor=c)
            want2.append(f + fb)
        if field_type == "vector":
            arr2 = np.stack(fields2)
            step(vector_field=arr2, diffusion_flux=buf, nu_dt_by_dx2=c)
            got2 = [arr2[q] for q in range(3)]
        else:
            arr2 = fields2[0].copy()
            step(field=arr2, diffusion_flux=buf, nu_dt_by_dx2=c)
            got2 = [arr2]
    trans += 1
    for q, (g, w) in enumerate(zip(got2, want2)):
        if np.any(g != w):
            idx = tuple(int(i) for i in np.argwhere(g != w)[0])
            fails.append(Fail(f"{kind}{s}:{field_type}:euler-step-repeated-call", f"second call of the Euler-forward {kind} kernel with the same scratch buffer != field + flux(field) (result depends on the call history)",
                              component=q, cell=idx, got=g[idx], want=w[idx]))
    changed = 0
    for q, (g, w) in enumerate(zip(got, want)):
        neq = g != w
        changed += int(np.count_nonzero(g != fields[q]))
        if np.any(neq):
            idx = tuple(int(i) for i in np.argwhere(neq)[0])
            fails.append(Fail(f"{kind}{s}:{field_type}:euler-step", f"Euler-forward {kind} step != field + flux(field) with the library's own flux kernel (exact arithmetic)",
                              component=q, cell=idx, got=g[idx], want=w[idx], step=c))
    if changed == 0:
        from harness.interp import HarnessError

        raise HarnessError("C20 control: Euler step did not change any cell (vacuous case)")
    return CaseResult(fails=fails, states=ncomp * int(np.prod(shape)), transitions=trans, traces=trans,
                      outcome=f"{kind}:{dim}:{field_type}:{pattern}:{changed}", extra={"cells_changed": changed, "step": str(c)})


# ------------------------------------------------------------- floating-point scalar-argument alphabet
FLOAT_STEP_KERNELS = [
    ("gen_advection_timestep_euler_forward_conservative_eno3_pyst_kernel_2d", {}),
    ("gen_advection_timestep_euler_forward_conservative_eno3_pyst_kernel_3d", {"field_type": "scalar"}),
    ("gen_advection_timestep_euler_forward_conservative_eno3_pyst_kernel_3d", {"field_type": "vector"}),
    ("gen_diffusion_timestep_euler_forward_pyst_kernel_2d", {}),
    ("gen_diffusion_timestep_euler_forward_pyst_kernel_3d", {"field_type": "scalar"}),
    ("gen_diffusion_timestep_euler_forward_pyst_kernel_3d", {"field_type": "vector"}),
    ("gen_vorticity_stretching_timestep_euler_forward_pyst_kernel_3d", {}),
    ("gen_vorticity_stretching_timestep_ssprk3_pyst_kernel_3d", {"midstep": True}),
]
STEP_VALUES = [0.3, 0.07, 1.0 / 3.0]  # none representable in single precision; 0.3 and 1/3 beyond the diffusive stability limit


def case_step_float(name, opts, dtype, variant, step, fixed):
    """Time-step kernels in floating point against field + step * flux(field) from the NumPy reference,
    with the step passed as a Python float / numpy double / numpy single / kernel-precision scalar: in a
    double-precision kernel the step must act with its full double value (tolerance 64 eps_double)."""
    from harness import kernelspec, registry, simcfg

    real_t = np.dtype(dtype).type
    eps = float(np.finfo(real_t).eps)
    d = registry.gen_dim(name)
    shape = (7, 9) if d == 2 else (6, 7, 8)
    sp = kernelspec.spec(name, opts)
    fn, aux = registry.instantiate(name, {**opts, **({"fixed": True} if fixed else {})}, real_t, shape=shape)
    scal = {k: step for k in sp["scalars"]}
    s_pass, s_mean = kernelspec.scalar_variant(scal, "dyadic:" + variant, real_t)  # 'dyadic' = value taken as given
    fails = []
    tag = f"{name.replace('gen_', '').replace('_pyst_kernel', '')}:{opts.get('field_type', '-')}"
    states = 0
    for rep in range(2):  # second call on the same objects (scratch dirty from the first)
        views, A = {}, {}
        for k, (arg, kind, role) in enumerate(sp["arrays"]):
            shp = shape if kind == "s" else (d, *shape)
            vals = simcfg._generic(shp, 3 * k + rep + 1)
            views[arg] = np.full(shp, np.nan, dtype=real_t) if role == "out" else vals.astype(real_t)
            A[arg] = views[arg].astype(np.float64).copy()
        fn(**views, **s_pass)
        expected = sp["ref"](A, s_mean, aux)
        mag = 1.0 + max(float(np.abs(A[a]).max()) for a, _k, r_ in sp["arrays"] if r_ != "out") ** 2
        for arg, (exp, mask) in expected.items():
            if not np.all(mask):
                continue
            got = views[arg].astype(np.float64)
            tol = 64 * eps * mag * (1 + abs(step)) ** 3
            states += got.size
            if not np.all(np.abs(got - exp) <= tol):
                bad = ~(np.abs(got - exp) <= tol)
                idx = tuple(int(i) for i in np.argwhere(bad)[0])
                fails.append(Fail(f"{tag}:step-value", "time-step kernel output differs from field + step * flux(field) for a step passed as " + variant,
                                  argument=arg, cell=idx, got=float(got[idx]), want=float(exp[idx]), tol=tol, step=step, dtype=dtype, call=rep, fixed_grid_size=fixed))
                break
    # ---- history with TRANSIENT view objects: one kernel object applied in turn to different fields that are
    # handed in as temporaries (interior view of a padded array / .view(), created in the call expression and
    # gone after it) while scratch and velocity arrays persist, as in a simulator: each call must advance exactly
    # the field it is given, once
    primary = next(arg for arg, _k, role in sp["arrays"] if role == "inout")
    pkind = next(k for arg, k, _r in sp["arrays"] if arg == primary)
    sl_s = tuple(slice(1, -1) for _ in shape)
    pshape = tuple(n + 2 for n in shape) if pkind == "s" else (d, *[n + 2 for n in shape])
    owners = [(simcfg._generic(pshape, 5 + 4 * q) * (1.0 - 0.6 * q)).astype(real_t) for q in range(3)]
    shared = {}
    for k, (arg, kind, role) in enumerate(sp["arrays"]):
        if arg != primary:
            shp = shape if kind == "s" else (d, *shape)
            shared[arg] = np.full(shp, np.nan, dtype=real_t) if role == "out" else simcfg._generic(shp, 3 * k + 2).astype(real_t)

    def interior(arr):
        return arr[sl_s] if arr.ndim == d else arr[(slice(None), *sl_s)]

    pre = [interior(o).astype(np.float64).copy() for o in owners]
    shared_pre = {a_: v.astype(np.float64).copy() for a_, v in shared.items()}
    for q in (0, 1, 2):  # back-to-back calls, nothing allocated in between
        fn(**{primary: interior(owners[q])}, **shared, **s_pass)
    for q in (0, 1, 2):
        A = dict(shared_pre)
        A[primary] = pre[q]
        exp, mask = sp["ref"](A, s_mean, aux)[primary]
        mag = 1.0 + max(float(np.abs(A[a_]).max()) for a_, _k, r_ in sp["arrays"] if r_ != "out") ** 2
        tol = 64 * eps * mag * (1 + abs(step)) ** 3
        got = interior(owners[q]).astype(np.float64)
        states += 1
        if not np.all(np.abs(got - exp) <= tol):
            fails.append(Fail(f"{tag}:transient-view-history", "one kernel object applied in turn to three fields passed as temporary views: a field was not advanced by exactly field + step * flux(field)",
                              field_index=q, unchanged=bool(np.array_equal(got, pre[q])), step=step, dtype=dtype))
            break
    return CaseResult(fails=fails, states=states, transitions=6, traces=6, outcome=f"{tag}:{dtype}:{variant}:{step}")


CASES = {"ssprk3": case_ssprk3, "euler_exact": case_euler_exact, "step_float": case_step_float}


def run(r) -> None:
    quick = r.tier == "quick"
    r.bind_model(only=[
        "gen_vorticity_stretching_flux_pyst_kernel_3d", "gen_elementwise_sum_pyst_kernel_3d", "gen_elementwise_saxpby_pyst_kernel_3d",
        "gen_set_fixed_val_at_boundaries_pyst_kernel_3d", "gen_advection_flux_conservative_eno3_pyst_kernel_2d",
        "gen_advection_flux_conservative_eno3_pyst_kernel_3d", "gen_diffusion_flux_pyst_kernel_2d", "gen_diffusion_flux_pyst_kernel_3d",
        "gen_elementwise_sum_pyst_kernel_2d", "gen_set_fixed_val_pyst_kernel_2d", "gen_set_fixed_val_pyst_kernel_3d",
    ])
    shapes = [(4, 5, 6)] if quick else [(4, 5, 6), (6, 7, 8), (5, 4, 7)]
    cs = [0.1, 0.37]
    rk = [dict(shape=s, vel=v, c=c, dtype=dt) for s in shapes for v in (0, 1) for c in cs for dt in (("float64",) if quick else ("float64", "float32"))]
    r.run_cases("ssprk3-basis", "ssprk3", rk)
    ex = []
    pats = range(2) if quick else range(6)
    for kind in ("advection", "diffusion"):
        for p in pats:
            ex.append(dict(kind=kind, dim=2, field_type="scalar", pattern=p + r.seed % 3))
            for ft in ("scalar", "vector"):
                ex.append(dict(kind=kind, dim=3, field_type=ft, pattern=p + r.seed % 3))
    # grid-shape alphabet (every ordering of three different sizes) with fixed_grid_size given, as the simulators do
    for kind in ("advection", "diffusion"):
        for sh in ((8, 7),):
            ex.append(dict(kind=kind, dim=2, field_type="scalar", pattern=1, shape=sh, fixed=True))
        for sh in ((8, 6, 7), (6, 8, 7), (7, 6, 8), (8, 7, 6)):
            for ft in ("scalar", "vector"):
                ex.append(dict(kind=kind, dim=3, field_type=ft, pattern=1, shape=sh, fixed=True))
    r.run_cases("euler-exact", "euler_exact", ex)
    fl = [dict(name=n, opts=o, dtype=dt, variant=v, step=st, fixed=fx) for n, o in FLOAT_STEP_KERNELS for dt in ("float64", "float32")
          for v in ("float", "float64", "float32", "real_t") for st in STEP_VALUES for fx in ((False, True) if st == STEP_VALUES[0] else (False,))]
    r.run_cases("step-argument-alphabet", "step_float", fl, chunksize=8)
    r.bounds = {"step_argument_types": ["float", "float64", "float32", "real_t"], "step_values": STEP_VALUES, "ssprk3_grids": shapes, "dt_by_2dx": cs, "velocity_patterns": 2, "impulses": "every component x cell",
                "euler_exact": "advection/diffusion, 2-D and 3-D scalar/vector, Fraction arithmetic, velocity alphabet {-2,-1,0,1,2,1/2} incl. ties", "patterns": len(list(pats))}
    r.extra["rule"] = "ssprk3: one state per unit impulse (full operator matrix); euler: one state per cell of each exact-arithmetic run"
    r.assumptions = ["the 4-D element-wise sum/saxpby kernels have no JIT counterpart in this image (pystencils 2.0): interpreter only",
                     "SSP-RK3 stage weights are runtime floats, so that identity is checked to 64 eps, the Euler identities exactly"]
