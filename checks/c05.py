"""C05 - finite-difference operators are consistent with their continuous counterparts.

basis/exact: every differential operator is applied, through its PUBLIC wrapper closure (component
plumbing included), to every monomial of the stated degree sampled on the simulator's own
coordinate convention (FlowSimulator._init_domain), in exact rational arithmetic (Fractions), and
compared with ``==`` against the analytically differentiated polynomial at every interior cell.
Spacings 1, 1/4, 3/7.  ENO3: the four (front, back) upwind patterns per axis.
"""

from __future__ import annotations

import itertools
from fractions import Fraction

import numpy as np

from harness.core import CaseResult, Fail
from refmodel.poly import Poly, frac_array, monomials, zeros

DXS = {"1": Fraction(1), "1/4": Fraction(1, 4), "3/7": Fraction(3, 7), "3/10": Fraction(3, 10)}
# floating-point replays of the same cases: kernel precision x type of the scalar objects the caller passes
FLOAT_MODES = ["float64:float", "float64:np", "float32:float", "float32:np"]
_STATE = {"float": False, "tol": 0.0}
SHAPES = {2: (7, 9), 3: (6, 7, 8)}
R = np.float64


def sim_coords(dim, shape, dx: Fraction):
    """Coordinates from the code that defines the axis convention."""
    from sopht.simulator.flow.flow_simulators import FlowSimulator

    o = object.__new__(FlowSimulator)
    o.grid_dim, o.grid_size, o.x_range, o.real_t = dim, shape, float(dx * shape[-1]), np.float64
    o._init_domain()
    return [frac_array(o.position_field[k]) for k in range(dim)]


def interior(shape, m):
    return tuple(slice(m, n - m) for n in shape)


class _FloatSpne:
    """Floating-point replay of the exact cases: the generators are built for the requested precision,
    rational arrays / scalars are converted at the call boundary (scalars to Python floats or to numpy
    scalars of the kernel precision - what a caller would naturally pass), results are copied back."""

    def __init__(self, spne, mode):
        self._spne = spne
        prec, styp = mode.split(":")
        self.real_t = np.dtype(prec).type
        self.sconv = float if styp == "float" else self.real_t

    def _arr(self, v):
        return np.ascontiguousarray(v.astype(np.float64).astype(self.real_t))

    def _scal(self, v):
        if isinstance(v, (list, tuple)):
            return [self._scal(x) for x in v]
        return self.sconv(float(v))

    def __getattr__(self, name):
        gen = getattr(self._spne, name)

        def make(**kw):
            kw = {k: (self._arr(v) if isinstance(v, np.ndarray) else v) for k, v in kw.items()}
            kw["real_t"] = self.real_t
            k = gen(**kw)

            def call(**args):
                conv, mags, smag = {}, [0.0], [0.0]
                for a, v in args.items():
                    if isinstance(v, np.ndarray):
                        conv[a] = self._arr(v)
                        if not np.all(v == _GARBAGE):
                            mags.append(float(np.abs(conv[a]).max()))
                    else:
                        conv[a] = self._scal(v)
                        smag.append(float(np.max(np.abs(np.asarray(conv[a], dtype=np.float64)))))
                k(**conv)
                _STATE["tol"] = 64 * float(np.finfo(self.real_t).eps) * (1 + max(mags)) ** 2 * (1 + max(smag))
                for a, v in args.items():
                    if isinstance(v, np.ndarray):
                        v[...] = conv[a].astype(np.float64)

            return call

        return make


def _cmp(fails, key, what, got, want, sl, **detail):
    g, w = got[sl], want[sl]
    if _STATE["float"]:
        neq = ~(np.abs(g.astype(np.float64) - w.astype(np.float64)) <= _STATE["tol"])
        detail = dict(detail, tol=_STATE["tol"], mode=_STATE["mode"])
        key = key + ":floating-point"
    else:
        neq = g != w
    if np.any(neq):
        idx = tuple(int(i) for i in np.argwhere(neq)[0])
        fails.append(Fail(key, what, cell_in_interior=idx, got=g[idx], want=w[idx], **detail))
    return int(g.size)


_GARBAGE = Fraction(977, 3)


def _garbage(shape):
    return zeros(shape, _GARBAGE)


def case_op(op, dim, dxs, mode="exact"):
    import sopht.numeric.eulerian_grid_ops as spne

    _STATE.update(float=mode != "exact", tol=0.0, mode=mode)
    if mode != "exact":
        spne = _FloatSpne(spne, mode)
    try:
        return _case_op(spne, op, dim, dxs, mode)
    finally:
        _STATE.update(float=False)


def _case_op(spne, op, dim, dxs, mode):
    dx = DXS[dxs]
    shape = SHAPES[dim]
    X = sim_coords(dim, shape, dx)
    s = f"_{dim}d"
    fails = []
    states = 0
    trans = 0
    tag = f"{op}{s}"
    mons = monomials(dim, 2)
    nz = 0  # anti-vacuity: non-zero expected values seen
    V = range(dim)

    def vec(comp_polys):
        return np.stack([p(X) for p in comp_polys])

    if op == "diffusion_flux":
        variants = [("scalar", True), ("scalar", False)] + ([("vector", True), ("vector", False)] if dim == 3 else [])
        for ft, gz in variants:
            kw = {"field_type": ft} if dim == 3 else {}
            k = getattr(spne, f"gen_diffusion_flux_pyst_kernel{s}")(real_t=R, reset_ghost_zone=gz, **kw)
            for e in monomials(dim, 3):
                p = Poly.monomial(e)
                want = p.laplacian(dim)(X)
                if ft == "scalar":
                    out = _garbage(shape)
                    k(diffusion_flux=out, field=p(X), prefactor=1 / dx**2)
                    states += _cmp(fails, f"{tag}:{ft}", "diffusion flux != prefactor * dx^2 * Laplacian on a polynomial", out, want, interior(shape, 1), monomial=e, dx=dxs, reset=gz)
                else:
                    for c in range(3):
                        f = np.stack([p(X) if q == c else zeros(shape) for q in range(3)])
                        out = np.stack([_garbage(shape)] * 3)
                        k(vector_field_diffusion_flux=out, vector_field=f, prefactor=1 / dx**2)
                        for q in range(3):
                            states += _cmp(fails, f"{tag}:{ft}", "vector diffusion flux: wrong component pairing or stencil", out[q], want if q == c else zeros(shape), interior(shape, 1), monomial=e, comp_in=c, comp_out=q)
                nz += int(np.any(want != 0))
                trans += 1
    elif op == "outplane_curl":
        for gz in (True, False):
            k = spne.gen_outplane_field_curl_pyst_kernel_2d(real_t=R, reset_ghost_zone=gz)
            for e in mons:
                p = Poly.monomial(e)
                out = np.stack([_garbage(shape)] * 2)
                k(curl=out, field=p(X), prefactor=1 / (2 * dx))
                states += _cmp(fails, f"{tag}:x", "out-of-plane curl: x component != d(psi)/dy", out[0], p.d(1)(X), interior(shape, 1), monomial=e, dx=dxs)
                states += _cmp(fails, f"{tag}:y", "out-of-plane curl: y component != -d(psi)/dx", out[1], (p.d(0) * -1)(X), interior(shape, 1), monomial=e, dx=dxs)
                nz += sum(e) > 0
                trans += 1
    elif op == "inplane_curl":
        k = spne.gen_inplane_field_curl_pyst_kernel_2d(real_t=R)
        for c, e in itertools.product(range(2), mons):
            p = Poly.monomial(e)
            comps = [p if q == c else Poly() for q in range(2)]
            out = _garbage(shape)
            k(curl=out, field=vec(comps), prefactor=1 / (2 * dx))
            want = (comps[1].d(0) - comps[0].d(1))(X)
            states += _cmp(fails, tag, "in-plane curl != dv_y/dx - dv_x/dy", out, want, interior(shape, 1), monomial=e, comp=c, dx=dxs)
            nz += int(np.any(want != 0))
            trans += 1
    elif op == "curl":
        for gz in (True, False):
            k = spne.gen_curl_pyst_kernel_3d(real_t=R, reset_ghost_zone=gz)
            for c, e in itertools.product(range(3), mons):
                p = Poly.monomial(e)
                f = [p if q == c else Poly() for q in range(3)]
                out = np.stack([_garbage(shape)] * 3)
                k(curl=out, field=vec(f), prefactor=1 / (2 * dx))
                want = [f[2].d(1) - f[1].d(2), f[0].d(2) - f[2].d(0), f[1].d(0) - f[0].d(1)]
                for q in range(3):
                    w = want[q](X)
                    states += _cmp(fails, f"{tag}:{'xyz'[q]}", "3-D curl component differs from the analytic curl", out[q], w, interior(shape, 1), monomial=e, comp_in=c, dx=dxs)
                    nz += int(np.any(w != 0))
                trans += 1
    elif op == "divergence":
        for gz in (True, False):
            k = spne.gen_divergence_pyst_kernel_3d(real_t=R, reset_ghost_zone=gz)
            for c, e in itertools.product(range(3), mons):
                p = Poly.monomial(e)
                f = [p if q == c else Poly() for q in range(3)]
                out = _garbage(shape)
                k(divergence=out, field=vec(f), inv_dx=1 / dx)
                w = p.d(c)(X)
                states += _cmp(fails, tag, "3-D divergence differs from the analytic divergence", out, w, interior(shape, 1), monomial=e, comp_in=c, dx=dxs)
                nz += int(np.any(w != 0))
                trans += 1
    elif op in ("update_from_forcing", "update_from_penalised"):
        pen = op == "update_from_penalised"
        name = "gen_update_vorticity_from_penalised_velocity_pyst_kernel" if pen else "gen_update_vorticity_from_velocity_forcing_pyst_kernel"
        k = getattr(spne, name + s)(real_t=R)
        w0p = Poly({(1, 1, 0): 2, (0, 0, 0): 5}) if dim == 2 else Poly({(1, 0, 1): 2, (0, 1, 0): -3})
        base = Poly({(1, 0, 0): 1, (0, 1, 0): -2, (0, 0, 0): 3})  # subtracted velocity in the penalised variant
        for c, e in itertools.product(V, mons):
            p = Poly.monomial(e)
            f = [p if q == c else Poly() for q in V]
            pref = 1 / (2 * dx)
            if dim == 2:
                w = w0p(X)
                w_in = w.copy()
                if pen:
                    u = [base, base * 2]
                    k(vorticity_field=w, penalised_velocity_field=vec([a + b for a, b in zip(f, u)]), velocity_field=vec(u), prefactor=pref)
                else:
                    k(vorticity_field=w, velocity_forcing_field=vec(f), prefactor=pref)
                want = w_in + (f[1].d(0) - f[0].d(1))(X)
                states += _cmp(fails, tag, "vorticity update != w + prefactor * 2dx * curl(forcing)", w, want, interior(shape, 1), monomial=e, comp_in=c, dx=dxs)
                nz += int(np.any(want != w_in))
            else:
                w = np.stack([w0p(X), (w0p * 2)(X), (w0p * -1)(X)])
                w_in = w.copy()
                if pen:
                    u = [base, base * 2, base * -1]
                    k(vorticity_field=w, penalised_velocity_field=vec([a + b for a, b in zip(f, u)]), velocity_field=vec(u), prefactor=pref)
                else:
                    k(vorticity_field=w, velocity_forcing_field=vec(f), prefactor=pref)
                curl = [f[2].d(1) - f[1].d(2), f[0].d(2) - f[2].d(0), f[1].d(0) - f[0].d(1)]
                for q in range(3):
                    want = w_in[q] + curl[q](X)
                    states += _cmp(fails, f"{tag}:{'xyz'[q]}", "3-D vorticity update component != w + prefactor * 2dx * curl(forcing)", w[q], want, interior(shape, 1), monomial=e, comp_in=c, dx=dxs)
                    nz += int(np.any(want != w_in[q]))
            trans += 1
    elif op == "stretching_flux":
        k = spne.gen_vorticity_stretching_flux_pyst_kernel_3d(real_t=R)
        om = [Poly({(1, 0, 0): 1, (0, 0, 0): 2}), Poly({(0, 1, 1): 1, (0, 0, 0): -1}), Poly({(0, 0, 2): 1, (1, 0, 0): 3})]
        for c, e in itertools.product(range(3), mons):
            p = Poly.monomial(e)
            u = [p if q == c else Poly() for q in range(3)]
            out = np.stack([_garbage(shape)] * 3)
            k(vorticity_stretching_flux_field=out, vorticity_field=vec(om), velocity_field=vec(u), prefactor=1 / (2 * dx))
            for q in range(3):
                want = (om[0] * u[q].d(0) + om[1] * u[q].d(1) + om[2] * u[q].d(2))(X)
                states += _cmp(fails, f"{tag}:{'xyz'[q]}", "vortex-stretching flux != prefactor * 2dx * (omega . grad) u", out[q], want, interior(shape, 1), monomial=e, comp_in=c, dx=dxs)
                nz += int(np.any(want != 0))
            trans += 1
    elif op == "filter":
        # 1-D filter Laplacians through the public filter wrapper: F = 0.25 * (-f(+1) - f(-1) + 2 f) = -(dx^2/4) f''
        # (exact for monomials of degree <= 3 per variable).
        fshape = (9, 10, 11)
        Xf = sim_coords(3, fshape, dx)
        L = lambda p, v: p.d(v, 2) * (-(dx**2) / 4)  # noqa: E731
        test_mons = [(2, 0, 0), (0, 2, 0), (0, 0, 2), (1, 1, 0), (2, 2, 2), (3, 2, 1), (2, 0, 3), (1, 0, 0), (0, 0, 0)]
        for ftype, order in itertools.product(("multiplicative", "convolution"), (1, 2)):
            flux_buf, fld_buf = _garbage(fshape), _garbage(fshape)
            k = spne.gen_laplacian_filter_kernel_3d(filter_order=order, filter_flux_buffer=flux_buf, field_buffer=fld_buf, real_t=R, filter_type=ftype)
            for e in test_mons:
                p = Poly.monomial(e)
                if ftype == "multiplicative":
                    q = p
                    for _ in range(order):
                        q = L(L(L(q, 0), 1), 2)
                    want_p = p - q
                else:
                    want_p = p
                    for v in range(3):
                        q = want_p
                        for _ in range(order):
                            q = L(q, v)
                        want_p = want_p - q
                f = p(Xf)
                k(scalar_field=f)
                m = 3 * order
                states += _cmp(fails, f"{tag}:{ftype}", "Laplacian filter differs from the composition of 1-D (-(dx^2/4) d^2/dx^2) filters", f, want_p(Xf), interior(fshape, m), monomial=e, order=order, dx=dxs)
                nz += int(want_p.t != p.t)
                trans += 1
    elif op == "eno3":
        k = getattr(spne, f"gen_advection_flux_conservative_eno3_pyst_kernel{s}")(real_t=R)
        # velocity patterns along the tested axis (index i of the cell along that axis):
        #   '++' all faces upwind from the left, '--' from the right, mixed: sign changes so that both
        #   (front +, back -) and (front -, back +) cells occur.
        for axis_var in V:  # 0 = x (last array axis), 1 = y, 2 = z
            arr_axis = dim - 1 - axis_var
            n = shape[arr_axis]
            idx = np.arange(n)
            pats = {
                "++": np.ones(n, dtype=int), "--": -np.ones(n, dtype=int),
                "mixA": np.where(idx < n // 2, -1, 3), "mixB": np.where(idx < n // 2, 3, -1),
                "alt": np.where(idx % 2 == 0, 2, -1),
                # exact ties: every face has u_i == -u_{i+1} != 0 (the upwind switch picks its 'else' branch)
                "tie": np.where(idx % 2 == 0, 2, -2),
                # a single tie face inside an otherwise one-signed flow
                "one-tie": np.where(idx == n // 2, -1, np.where(idx == n // 2 + 1, 1, np.where(idx < n // 2, 1, 2))),
                # opposite signs across ONE face with |u_own| / |u_neighbour| = 3/2 (twice the values: 6, 3, -2, -6): the
                # face sum keeps the sign of the larger one although half of it would not
                "ratio+": np.where(idx < n // 2, 6, np.where(idx == n // 2, 3, np.where(idx == n // 2 + 1, -2, -6))),
                "ratio-": np.where(idx < n // 2, -6, np.where(idx == n // 2, -3, np.where(idx == n // 2 + 1, 2, 6))),
            }
            for pname, u1 in pats.items():
                bshape = [1] * dim
                bshape[arr_axis] = n
                u_axis = np.empty(shape, dtype=object)
                u_axis[...] = np.array([Fraction(int(v)) for v in u1], dtype=object).reshape(bshape)
                vel = np.stack([u_axis if q == axis_var else zeros(shape) for q in V])
                # classify cells by (front, back) branch from the face sums
                front_pos = np.zeros(n, dtype=bool)
                back_pos = np.zeros(n, dtype=bool)
                front_pos[:-1] = (u1[:-1] + u1[1:]) > 0
                back_pos[1:] = (u1[1:] + u1[:-1]) > 0
                same = front_pos == back_pos
                for e in monomials(dim, 4, 3):
                    ea = e[axis_var]
                    if sum(e) - ea > 1:
                        continue
                    g = Poly.monomial(e)
                    f = g(X) / u_axis  # nodal flux f*u == monomial
                    out = zeros(shape)
                    k(advection_flux=out, field=f, velocity=vel, inv_dx=1 / dx)
                    want = g.d(axis_var)(X)
                    trans += 1
                    for cells_same in (True, False):
                        if ea > (3 if cells_same else 2):
                            continue
                        sel = np.zeros(n, dtype=bool)
                        sel[2:-2] = True
                        sel &= same if cells_same else ~same
                        if not sel.any():
                            continue
                        sl = [slice(2, m - 2) for m in shape]
                        sl[arr_axis] = np.where(sel)[0]
                        for ci in np.where(sel)[0]:
                            sl2 = list(sl)
                            sl2[arr_axis] = slice(int(ci), int(ci) + 1)
                            states += _cmp(fails, f"{tag}:axis{'xyz'[axis_var]}:{'same' if cells_same else 'mixed'}",
                                           "ENO3 flux difference != d(nodal flux)/dx on a polynomial of the stated degree", out, want, tuple(sl2),
                                           monomial=e, pattern=pname, axis="xyz"[axis_var], dx=dxs, front_positive=bool(front_pos[ci]), back_positive=bool(back_pos[ci]))
                        nz += int(np.any(want != 0))
    else:
        raise KeyError(op)
    if nz == 0 and not fails:
        from harness.interp import HarnessError

        raise HarnessError(f"C05 {tag}: vacuous (all expected values zero)")
    return CaseResult(fails=fails, states=states, transitions=trans, traces=trans, outcome=f"{tag}:{dxs}:{nz}:{mode}", extra={"nontrivial_expectations": nz})


CASES = {"op": case_op}

OPS = {
    2: ["diffusion_flux", "outplane_curl", "inplane_curl", "update_from_forcing", "update_from_penalised", "eno3"],
    3: ["diffusion_flux", "curl", "divergence", "update_from_forcing", "update_from_penalised", "stretching_flux", "filter", "eno3"],
}


def run(r) -> None:
    r.bind_model()
    cases = []
    dxs = list(DXS) if r.tier == "thorough" else ["1/4", "3/7"]
    for dim in (2, 3):
        for op in OPS[dim]:
            for d in dxs:
                cases.append(dict(op=op, dim=dim, dxs=d))
    cases.sort(key=lambda c: (c["op"] != "eno3", c["dim"] != 3))
    r.run_cases("operators", "op", cases)
    # the same cases in floating point for both kernel precisions, with the scalar arguments passed as
    # Python floats and as numpy scalars, on spacings that are NOT representable in single precision
    fcases = [dict(op=op, dim=dim, dxs=d, mode=m) for dim in (2, 3) for op in OPS[dim] for d in ("3/7", "3/10") for m in FLOAT_MODES]
    r.run_cases("operators-floating-point", "op", fcases)
    r.bounds = {"monomials": "all x^a y^b z^c with a+b+c <= 2 (<= 3 for Laplacians, per-variable <= 3 for filters, ENO3: degree <= 3 along the axis)",
                "grids": SHAPES, "spacings": dxs, "eno3_velocity_patterns": ["++", "--", "mixA", "mixB", "alt", "tie", "one-tie", "ratio+", "ratio-"], "arithmetic": "exact (Fractions); floating-point replays " + ", ".join(FLOAT_MODES) + " on spacings 3/7, 3/10 with tolerance 64 eps (1 + max|input|)^2 (1 + |scalar|)"}
    r.extra["rule"] = "one state per (operator variant, monomial, interior cell) compared with == against the analytic derivative"
    r.assumptions = ["kernels executed by the interpreter in exact mode on the captured assignment collections (float literals rationalised to within 1 ulp)"]
