"""C04 - transport, diffusion and forcing conserve total vorticity / transported scalar.

(a) face-flux identity on the CAPTURED front/back ENO3 kernels (every axis, 2-D and 3-D): the flux a
    front kernel adds at cell i equals the flux the back kernel subtracts at cell i+1, for every
    ordered pair of face velocities of the alphabet (de Bruijn line: all sign patterns incl. exact
    ties and signed zeros) and every nodal impulse - exact arithmetic and IEEE float.
(b) telescoping through the public wrappers (exact): for every impulse whose footprint is interior
    the grid sum of the flux / update is 0 (advection for every velocity pattern, diffusion, curl
    forcing) and the filters preserve the grid sum.
(c) step level: deviation-bounded lattice over simulator configurations x field patterns; grid sum
    before/after a real time_step (per component in 3-D).
"""

from __future__ import annotations

import itertools
from fractions import Fraction

import numpy as np

from harness import explore, shim, simcfg
from harness.core import CaseResult, Fail
from refmodel.poly import zeros

R = np.float64


def de_bruijn_pairs(alphabet):
    """Sequence in which every ordered pair of alphabet members occurs as neighbours."""
    k = len(alphabet)
    seq = []
    a = [0] * (k * 2)

    def db(t, p):
        if t > 2:
            if 2 % p == 0:
                seq.extend(a[1 : p + 1])
        else:
            a[t] = a[t - p]
            db(t + 1, p)
            for j in range(a[t - p] + 1, k):
                a[t] = j
                db(t + 1, t)

    db(1, 1)
    seq = seq + seq[:1]
    return [alphabet[i] for i in seq]


def _eno3_kernels(dim):
    import sopht.numeric.eulerian_grid_ops as spne

    n0 = len(shim.KERNELS)
    getattr(spne, f"gen_advection_flux_conservative_eno3_pyst_kernel_{dim}d")(real_t=R)
    out = {}
    for ck in shim.KERNELS[n0:]:
        offs = [off for name, off in ck.reads if name == "field"]
        axis = {i for off in offs for i, o in enumerate(off) if o}
        if len(axis) != 1:
            continue
        ax = axis.pop()
        hi = max(off[ax] for off in offs)
        lo = min(off[ax] for off in offs)
        side = "front" if hi == 2 else ("back" if lo == -2 else None)
        vel = [n for n in ck.fields if n.startswith("velocity")][0]
        out[(ax, side)] = (ck, vel)
    return out


def case_faceflux(dim, mode):
    ks = _eno3_kernels(dim)
    fails = []
    states = trans = 0
    if mode == "exact":
        alphabet = [Fraction(-2), Fraction(-1), Fraction(0), Fraction(1), Fraction(2), Fraction(1, 2)]
        mk = lambda shape, v=0: zeros(shape, v)  # noqa: E731
        one = Fraction(3, 2)
        inv_dx = Fraction(7, 3)
    else:
        alphabet = [-2.0, -1.0, -0.0, 0.0, 1.0, 2.0, 2.0**-1074, -(2.0**-1074)]
        mk = lambda shape, v=0.0: np.full(shape, v, dtype=np.float64)  # noqa: E731
        one = 1.5
        inv_dx = 2.0
    seq = de_bruijn_pairs(alphabet)
    pairs_seen = set()
    branches = set()
    if len({a for a, _ in ks}) != dim or any((ax, s) not in ks for ax in range(dim) for s in ("front", "back")):
        fails.append(Fail(f"faceflux_{dim}d:kernel-structure", "could not identify one front and one back ENO3 kernel per axis", found=[str(k) for k in ks]))
        return CaseResult(fails=fails)
    for ax in range(dim):
        (kf, vf), (kb, vb) = ks[(ax, "front")], ks[(ax, "back")]
        L = len(seq) + 4
        shape = tuple(L if a == ax else 5 for a in range(dim))
        line = [2] * dim
        u = mk(shape, alphabet[3])
        bshape = [1] * dim
        bshape[ax] = L
        uline = np.empty(L, dtype=u.dtype)
        uline[:2] = alphabet[3]
        uline[-2:] = alphabet[4]
        uline[2:-2] = seq
        u[...] = uline.reshape(bshape)
        for j in range(L):
            pos = list(line)
            pos[ax] = j
            f = mk(shape)
            f[tuple(pos)] = one
            Ff = mk(shape)
            Fb = mk(shape)
            kf.compile()(advection_flux=Ff, field=f, **{vf: u}, inv_dx=inv_dx)
            kb.compile()(advection_flux=Fb, field=f, **{vb: u}, inv_dx=inv_dx)
            trans += 2
            for i in range(2, L - 3):
                ci = list(line)
                ci[ax] = i
                cn = list(line)
                cn[ax] = i + 1
                a, b = Ff[tuple(ci)], Fb[tuple(cn)]
                states += 1
                pairs_seen.add((str(uline[i]), str(uline[i + 1])))
                if a != 0:
                    branches.add((ax, bool(uline[i] > -uline[i + 1])))
                if not (a == -b):
                    fails.append(Fail(f"faceflux_{dim}d:axis{ax}", "flux leaving a cell through a face != flux entering its neighbour through that face",
                                      mode=mode, axis=ax, face=[i, i + 1], u=[uline[i], uline[i + 1]], impulse_at=j, leaving=a, entering=-b))
    if len(pairs_seen) < len(alphabet) ** 2 or len(branches) < 2 * dim:
        from harness.interp import HarnessError

        raise HarnessError(f"C04 faceflux: not all velocity pairs / branches exercised ({len(pairs_seen)}, {len(branches)})")
    return CaseResult(fails=fails, states=states, transitions=trans, traces=trans, outcome=f"faceflux:{dim}:{mode}:{len(pairs_seen)}",
                      extra={"velocity_pairs": len(pairs_seen), "branches_hit": len(branches)})


def _frac_velocity(dim, shape, k):
    alpha = [Fraction(-2), Fraction(-1), Fraction(0), Fraction(1), Fraction(2), Fraction(1, 2)]
    m = len(alpha)
    n = int(np.prod(shape))
    out = np.empty((dim, *shape), dtype=object)
    for d in range(dim):
        a = np.empty(n, dtype=object)
        a[:] = [alpha[(i * (k + 2) + (i // m) * (d + 1) + d + k) % m] for i in range(n)]
        out[d] = a.reshape(shape)
    return out


def case_telescope(op, dim):
    import sopht.numeric.eulerian_grid_ops as spne

    s = f"_{dim}d"
    fails = []
    states = trans = 0
    c = Fraction(3, 7)
    nz = 0

    def imp(shape, idx, v=Fraction(5, 2)):
        a = zeros(shape)
        a[idx] = v
        return a

    def total(a):
        return sum(a.ravel().tolist(), Fraction(0))

    if op == "advection":
        shape = (10, 11) if dim == 2 else (9, 10, 11)
        flux = getattr(spne, f"gen_advection_flux_conservative_eno3_pyst_kernel{s}")(real_t=R)
        step = getattr(spne, f"gen_advection_timestep_euler_forward_conservative_eno3_pyst_kernel{s}")(real_t=R)
        cells = list(itertools.product(*[range(4, n - 4) for n in shape]))
        for k in range(4 if dim == 2 else 2):
            vel = _frac_velocity(dim, shape, k)
            for idx in cells:
                f = imp(shape, idx)
                buf = zeros(shape)
                flux(advection_flux=buf, field=f, velocity=vel, inv_dx=c)
                t = total(buf)
                nz += int(np.any(buf != 0))
                if t != 0:
                    fails.append(Fail(f"telescope:advection_flux{s}", "ENO3 flux of an interior impulse does not sum to zero over the grid", impulse=idx, velocity_pattern=k, total=t))
                g = f.copy()
                step(field=g, advection_flux=zeros(shape, 9), velocity=vel, dt_by_dx=c)
                if total(g) != total(f):
                    fails.append(Fail(f"telescope:advection_step{s}", "advection step changed the grid sum of an interior impulse", impulse=idx, velocity_pattern=k))
                states += 1
                trans += 2
    elif op == "diffusion":
        shape = (7, 8) if dim == 2 else (6, 7, 8)
        flux = getattr(spne, f"gen_diffusion_flux_pyst_kernel{s}")(real_t=R)
        step = getattr(spne, f"gen_diffusion_timestep_euler_forward_pyst_kernel{s}")(real_t=R)
        for idx in itertools.product(*[range(2, n - 2) for n in shape]):
            f = imp(shape, idx)
            buf = zeros(shape, 4)
            flux(diffusion_flux=buf, field=f, prefactor=c)
            nz += int(np.any(buf != 0))
            if total(buf) != 0:
                fails.append(Fail(f"telescope:diffusion_flux{s}", "diffusion flux of an interior impulse does not sum to zero", impulse=idx, total=total(buf)))
            g = f.copy()
            step(field=g, diffusion_flux=zeros(shape, 4), nu_dt_by_dx2=c)
            if total(g) != total(f):
                fails.append(Fail(f"telescope:diffusion_step{s}", "diffusion step changed the grid sum of an interior impulse", impulse=idx))
            states += 1
            trans += 2
    elif op == "forcing":
        shape = (7, 8) if dim == 2 else (6, 7, 8)
        upd = getattr(spne, f"gen_update_vorticity_from_velocity_forcing_pyst_kernel{s}")(real_t=R)
        wshape = shape if dim == 2 else (3, *shape)
        for comp in range(dim):
            for idx in itertools.product(*[range(2, n - 2) for n in shape]):
                f = np.stack([imp(shape, idx) if q == comp else zeros(shape) for q in range(dim)])
                w = zeros(wshape)
                upd(vorticity_field=w, velocity_forcing_field=f, prefactor=c)
                nz += int(np.any(w != 0))
                sums = [total(w)] if dim == 2 else [total(w[q]) for q in range(3)]
                if any(t != 0 for t in sums):
                    fails.append(Fail(f"telescope:forcing{s}", "curl of an interior forcing impulse does not sum to zero", impulse=idx, component=comp, totals=sums))
                states += 1
                trans += 1
    elif op == "filter":
        for ftype, order in itertools.product(("multiplicative", "convolution"), (1, 2)):
            m = 3 * order + 1
            shape = (2 * m + 2, 2 * m + 1, 2 * m + 3)
            fb, gb = zeros(shape, 7), zeros(shape, -3)
            k = spne.gen_laplacian_filter_kernel_3d(filter_order=order, filter_flux_buffer=fb, field_buffer=gb, real_t=R, filter_type=ftype)
            for idx in itertools.product(*[range(m, n - m) for n in shape]):
                f = imp(shape, idx)
                k(scalar_field=f)
                nz += int(f[idx] != Fraction(5, 2))
                if total(f) != Fraction(5, 2):
                    fails.append(Fail(f"telescope:filter:{ftype}", "Laplacian filter changed the grid sum of an interior impulse", order=order, impulse=idx, total=total(f)))
                states += 1
                trans += 1
    else:
        raise KeyError(op)
    # nz = impulses whose flux / update was non-zero. It is reported, not enforced: an operator that does
    # nothing conserves trivially (that is C05/C12/C13's business), and a guard on the OUTPUT would turn a
    # broken tree into a harness error instead of a verdict.
    return CaseResult(fails=fails, states=states, transitions=trans, traces=trans, outcome=f"telescope:{op}:{dim}:{nz > 0}", extra={"impulses_with_nonzero_response": nz, "impulses": states})


def case_step(cfg, state, velocity, forcing, seed):
    c = simcfg.normalise(cfg)
    d = simcfg.dim_of(c["kind"])
    margin = simcfg.step_reach(c) + c["width"] + 1
    if c["shape"] is None or True:
        base = 2 * margin + 3
        c["shape"] = tuple(base + i for i in range(d))
    fails = []
    sim = simcfg.make_sim(c)
    simcfg.load_state(sim, c, state, velocity, forcing, margin=margin, seed=seed)
    p = simcfg.primary(sim)
    real_t = p.dtype.type
    dt = c["params"][0]
    comps = [p] if p.ndim == d else [p[k] for k in range(p.shape[0])]
    before = [float(np.sum(q.astype(np.float64))) for q in comps]
    absb = [float(np.sum(np.abs(q.astype(np.float64)))) for q in comps]
    umax = float(np.abs(sim.velocity_field).sum(0).max())
    kw = {"free_stream_velocity": simcfg.free_stream(c, seed)} if c["stream"] else {}
    sim.time_step(dt=dt, **kw)
    comps = [p] if p.ndim == d else [p[k] for k in range(p.shape[0])]
    after = [float(np.sum(q.astype(np.float64))) for q in comps]
    absa = [float(np.sum(np.abs(q.astype(np.float64)))) for q in comps]
    eps = float(np.finfo(real_t).eps)
    nu = c["params"][1]
    dx = float(sim.dx)
    amp = 1 + 8 * dt * umax / dx + 16 * nu * dt / dx**2
    fscale = 0.0
    if simcfg.is_ns(c["kind"]) and c["forcing"]:
        fscale = float(np.abs(simcfg.forcing_pattern(forcing, d, c["shape"], margin, seed)).sum()) * dt / (dx * c["params"][2])
    for k, (b, a) in enumerate(zip(before, after)):
        tol = 64 * eps * (absb[k] * amp + absa[k] + fscale * (1 + umax * dt / dx))
        if not np.isfinite(a) or abs(a - b) > tol:
            fails.append(Fail(f"step:{c['kind']}:sum-changed", "a time step changed the grid sum of a compactly supported field",
                              cfg=c, state=state, velocity=velocity, forcing=forcing, component=k, before=b, after=a, tol=tol))
    moved = any(abs(x - y) > 0 for x, y in zip(absb, absa))
    return CaseResult(fails=fails, states=1, transitions=1, traces=1, outcome=f"{c['kind']}:{state}:{velocity}:{moved}", extra={"shape": c["shape"], "sum_before": before, "sum_after": after})


CASES = {"faceflux": case_faceflux, "telescope": case_telescope, "step": case_step}


def step_lattice(tier, seed):
    """Deviation-bounded lattice over configuration x pattern axes."""
    out = []
    dev = 2 if tier == "quick" else 3
    common = {
        "dtype": ["float64", "float32"],
        "state": simcfg.STATE_PATTERNS,
        "velocity": simcfg.VELOCITY_PATTERNS,
        "params": [simcfg.DEFAULT_PARAMS, [3e-3, 2e-2, 2.5]],
    }
    ns = {"forcing": [True, False], "stream": [False, True], "width": [2, 0, 1, 3, 4], "forcing_pat": simcfg.FORCING_PATTERNS}
    axes_by_kind = {
        "ns2d": {**common, **ns},
        "ns3d": {**common, **ns, "filter": [None, ["multiplicative", 1], ["multiplicative", 2], ["multiplicative", 3], ["convolution", 1], ["convolution", 2], ["convolution", 3]],
                 "poisson": ["greens", "fastdiag"]},
        "pt2d": common, "pt3ds": common, "pt3dv": common,
    }
    for kind, axes in axes_by_kind.items():
        d = dev if kind != "ns3d" or tier != "quick" else 2
        for pt in explore.lattice(axes, d):
            cfg = {"kind": kind, "dtype": pt["dtype"], "params": pt["params"]}
            for k in ("forcing", "stream", "width", "filter", "poisson"):
                if k in pt:
                    cfg[k] = pt[k]
            out.append(dict(cfg=cfg, state=pt["state"], velocity=pt["velocity"], forcing=pt.get("forcing_pat", "none"), seed=seed))
    return out


def run(r) -> None:
    r.bind_model()
    ff = [dict(dim=d, mode=m) for d in (2, 3) for m in ("exact", "float")]
    r.run_cases("face-flux", "faceflux", ff)
    tel = [dict(op=o, dim=d) for d in (2, 3) for o in ("advection", "diffusion", "forcing")] + [dict(op="filter", dim=3)]
    r.run_cases("telescoping", "telescope", tel)
    steps = step_lattice(r.tier, r.seed)
    r.run_cases("step", "step", steps, chunksize=4)
    r.bounds = {"faceflux_alphabet_exact": "{-2,-1,0,1,2,1/2}^2 on every face", "faceflux_alphabet_float": "{-2,-1,-0.0,0.0,1,2,+-denorm_min}^2",
                "step_lattice_deviation": 2 if r.tier == "quick" else 3, "step_cases": len(steps)}
    r.extra["rule"] = "faceflux: one state per (face, velocity pair, nodal impulse); telescope: per interior impulse (x velocity pattern); step: per (configuration, pattern) tuple of the deviation-bounded lattice"
    r.assumptions = ["kernels on the interpreter (bound by conformance replay); FFT Poisson solve does not enter the conserved quantity"]
