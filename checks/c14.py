"""C14 - the flow step has no preferred direction (axis permutation / mirror equivariance).

lattice: every element of the grid symmetry group that maps a grid to a grid (2-D: all 8 of D4, a
transposition maps an (ny, nx) simulator to an (nx, ny) one with x_range adjusted so that dx is
equal; 3-D: all 48 of the octahedral group) x simulator configurations x compactly supported
generic states x generic velocities with no zero face sum.
Oracle: step(g . state) == g . step(state) up to rounding, vorticity transforming as a pseudo-scalar
/ pseudo-vector, velocity, forcing and free stream as vectors.  No formula is transcribed.
"""

from __future__ import annotations

import itertools

import numpy as np

from harness import explore, simcfg
from harness.core import CaseResult, Fail


def group(dim):
    """All (perm, flips): new array axis a is old axis perm[a], flipped if flips[a]."""
    out = []
    for perm in itertools.permutations(range(dim)):
        for flips in itertools.product((False, True), repeat=dim):
            out.append((perm, flips))
    out.sort(key=lambda g: (sum(1 for a, p in enumerate(g[0]) if a != p), sum(g[1])))
    return out


def det(perm, flips):
    sign = 1
    p = list(perm)
    for i in range(len(p)):
        while p[i] != i:
            j = p[i]
            p[i], p[j] = p[j], p[i]
            sign = -sign
    return sign * (-1) ** sum(flips)


def t_scalar(f, perm, flips):
    out = np.transpose(f, perm)
    ax = [a for a, fl in enumerate(flips) if fl]
    return np.flip(out, axis=ax) if ax else out


def t_vector(v, perm, flips, pseudo=False):
    d = len(perm)
    out = np.empty((d, *[v.shape[1 + perm[a]] for a in range(d)]), dtype=v.dtype)
    s = det(perm, flips) if pseudo else 1
    for a in range(d):
        k_new, k_old = d - 1 - a, d - 1 - perm[a]
        out[k_new] = t_scalar(v[k_old], perm, flips) * ((-1 if flips[a] else 1) * s)
    return out


def t_const_vector(c, perm, flips):
    d = len(perm)
    out = np.zeros(d)
    for a in range(d):
        out[d - 1 - a] = c[d - 1 - perm[a]] * (-1 if flips[a] else 1)
    return out


def case_equivariance(cfg, g_index, seed, steps=1):
    c = simcfg.normalise(cfg)
    kind = c["kind"]
    d = simcfg.dim_of(kind)
    perm, flips = group(d)[g_index]
    real_t = np.dtype(c["dtype"]).type
    eps = float(np.finfo(real_t).eps)
    c = {k: v for k, v in c.items()}
    margin = simcfg.step_reach(c) * steps + c["width"]  # exactly the reach of the step(s): the tightest admissible support
    base = 2 * margin + 3
    shape = tuple(base + i for i in range(d))
    c["shape"] = shape
    dx = 1.0 / 16
    c["x_range"] = dx * shape[-1]
    dt = c["params"][0]
    sim1 = simcfg.make_sim(c)
    simcfg.load_state(sim1, c, "generic", "generic", "generic", margin=margin, seed=seed)
    # no face velocity sum may be exactly zero (tie-break of the upwind switch is not symmetric)
    for k in range(d):
        u = sim1.velocity_field[k]
        ax = d - 1 - k
        s = np.take(u, range(1, u.shape[ax]), axis=ax) + np.take(u, range(0, u.shape[ax] - 1), axis=ax)
        if np.any(s == 0):
            from harness.interp import HarnessError

            raise HarnessError("velocity alphabet member has a zero face sum")
    c2 = dict(c)
    c2["shape"] = tuple(shape[perm[a]] for a in range(d))
    c2["x_range"] = dx * c2["shape"][-1]
    sim2 = simcfg.make_sim(c2)
    p1, p2 = simcfg.primary(sim1), simcfg.primary(sim2)
    is_ns = simcfg.is_ns(kind)
    if p1.ndim == d:
        p2[...] = t_scalar(p1, perm, flips) * (det(perm, flips) if (is_ns and d == 2) else 1)
    else:
        p2[...] = t_vector(p1, perm, flips, pseudo=is_ns)
    sim2.velocity_field[...] = t_vector(sim1.velocity_field, perm, flips)
    if is_ns and c["forcing"]:
        sim2.eul_grid_forcing_field[...] = t_vector(sim1.eul_grid_forcing_field, perm, flips)
    fs = simcfg.free_stream(c, seed)
    kw1 = {"free_stream_velocity": fs} if c["stream"] else {}
    kw2 = {"free_stream_velocity": t_const_vector(fs, perm, flips)} if c["stream"] else {}
    w_in = np.abs(p1.astype(np.float64)).max()
    for _ in range(steps):  # the second step starts from a used simulator (scratch buffers, FFT buffers dirty)
        sim1.time_step(dt=dt, **kw1)
        sim2.time_step(dt=dt, **kw2)
    fails = []
    if p1.ndim == d:
        want = t_scalar(p1, perm, flips) * (det(perm, flips) if (is_ns and d == 2) else 1)
    else:
        want = t_vector(p1, perm, flips, pseudo=is_ns)
    umax = float(np.abs(sim1.velocity_field).max()) + 1.0
    scale = w_in * (1 + 8 * dt * 3 / dx + 16 * c["params"][1] * dt / dx**2) * steps
    if is_ns and c["forcing"]:
        scale = scale + float(np.abs(simcfg.forcing_pattern("generic", d, shape, margin, seed)).max()) * dt / dx
    tol = 256 * eps * (scale + 1e-300)
    dev = np.abs(p2.astype(np.float64) - want.astype(np.float64)).max()
    gdesc = {"perm": list(perm), "flips": list(flips)}
    if not np.isfinite(dev) or dev > tol:
        fails.append(Fail(f"{kind}:vorticity-equivariance" if is_ns else f"{kind}:field-equivariance", "time step does not commute with an axis permutation / mirror of the grid",
                          group_element=gdesc, cfg=c, dev=float(dev), tol=tol))
    if is_ns:
        wantu = t_vector(sim1.velocity_field, perm, flips)
        n = int(np.prod(shape))
        tolu = 1024 * eps * (w_in * n * dx**d * (1.0 / dx if d == 3 else 4.0) / dx + umax)
        devu = np.abs(sim2.velocity_field.astype(np.float64) - wantu.astype(np.float64)).max()
        if not np.isfinite(devu) or devu > tolu:
            fails.append(Fail(f"{kind}:velocity-equivariance", "recovered velocity does not commute with an axis permutation / mirror of the grid", group_element=gdesc, cfg=c, dev=float(devu), tol=tolu))
    moved = bool(np.any(p1 != 0))
    return CaseResult(fails=fails, states=1, transitions=2, traces=2, outcome=f"{kind}:{g_index}:{moved}", extra={"group_element": gdesc, "shape": shape})


CASES = {"equivariance": case_equivariance}


def run(r) -> None:
    r.bind_model()
    quick = r.tier == "quick"
    cases = []
    ns = {"forcing": [True, False], "stream": [True, False], "stream_kind": simcfg.STREAM_KINDS, "width": [2, 0, 1, 3], "dtype": ["float64", "float32"], "params": [[1e-2, 1e-1, 1.7], [3e-3, 2e-2, 2.5]]}
    kinds = {
        "ns2d": ns,
        "ns3d": {**ns, "filter": [None, ["multiplicative", 2], ["convolution", 1], ["convolution", 3], ["multiplicative", 1]], "poisson": ["greens", "fastdiag"]},
        "pt2d": {"dtype": ["float64", "float32"], "params": [[1e-2, 1e-1, 1.0], [3e-3, 2e-2, 1.0]]},
        "pt3ds": {"dtype": ["float64", "float32"], "params": [[1e-2, 1e-1, 1.0]]},
        "pt3dv": {"dtype": ["float64", "float32"], "params": [[1e-2, 1e-1, 1.0]]},
    }
    for kind, axes in kinds.items():
        d = simcfg.dim_of(kind)
        ng = len(group(d))
        for dev, gs in ((1, range(ng)), (2, [1, 2, ng // 2, ng - 1] if quick else range(ng))):
            for pt in explore.lattice(axes, dev):
                cfg = {"kind": kind, **{k: v for k, v in pt.items()}}
                for gi in gs:
                    cases.append(dict(cfg=cfg, g_index=gi, seed=r.seed))
        # two consecutive steps (the second on used simulator objects) for every group element, default configuration
        for gi in range(ng):
            for dt_ in ("float64", "float32"):
                cases.append(dict(cfg={"kind": kind, "dtype": dt_, **({"forcing": True, "stream": True} if simcfg.is_ns(kind) else {})}, g_index=gi, seed=r.seed, steps=2))
    seen = set()
    uniq = []
    for c in cases:
        k = repr(c)
        if k not in seen:
            seen.add(k)
            uniq.append(c)
    uniq.sort(key=lambda c: c["cfg"]["kind"] not in ("ns3d", "pt3dv"))
    r.run_cases("equivariance", "equivariance", uniq, chunksize=4)
    r.bounds = {"group_2d": 8, "group_3d": 48, "configurations": "deviation <= 1 x full group; deviation <= 2 x " + ("4 group elements" if quick else "full group"), "cases": len(uniq)}
    r.extra["rule"] = "one state per (configuration, group element): two real simulators stepped once, results compared after transforming"
    r.assumptions = ["small-scope: one generic compactly supported state per configuration (seed rotates it)", "interpreter back end"]
