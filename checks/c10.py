"""C10 - virtual-boundary feedback is the documented PI law over any call history.

Explicit-state BFS on REAL ImmersedBodyFlowInteraction objects (2-D circular cylinder, 3-D sphere;
one body, and two bodies sharing one Eulerian forcing field; reset mode on/off).  Events:
  E_i   full interaction  __call__()
  L_i   compute_flow_forces_and_torques()
  Ta_i / Tb_i   time_step(1/4) / time_step(1/8)
  M_i   move body i to the next of three poses/velocities
  F     switch between two flow fields
Oracle: a reference PI machine per body stepped in lock-step (integral += dt * last mismatch;
force = k s integral + c s (U - V), s = max marker spacing^(dim-1), U from a reference
interpolation in longdouble), forcing field = previous + spread (accumulate) or = spread (reset),
clock = sum of dt, flow velocity and body arrays byte-identical across every event.
"""

from __future__ import annotations

import copy

import numpy as np

from harness import bodies, explore, lagcomm
from harness.core import CaseResult, Fail
from refmodel import delta

LD = np.longdouble
# neither coefficient nor the two step sizes is representable in single precision (a value silently
# squeezed through float32 somewhere in a double-precision run must show)
K_STIFF, C_DAMP = -41.7, -3.1
DT_A, DT_B = 0.23, 0.11


def ref_weights(dim, shape, dx, pos, shift=None):
    """Dense reference weight field (cosine kernel) for one marker: w[cells] such that
    U = sum(w * u) * dx^d.  pos: (dim,) x,y[,z]."""
    w1 = [delta.weights_1d("cosine", float(pos[k]), dx, shape[dim - 1 - k], shift) for k in range(dim)]
    out = np.ones(shape, dtype=LD)
    for a in range(dim):
        sh = [1] * dim
        sh[a] = shape[a]
        out = out * w1[dim - 1 - a].reshape(sh)
    return out


# forcing points (2-D cylinder, sphere equator): resolved like the grid (default), coarser than 2 dx, finer than dx / 2
# (the library only warns about the last two; the coefficient scaling must not depend on the branch taken)
MARKER_RESOLUTIONS = {None: (8, 6), "coarse": (2, 3), "fine": (40, 20)}


class Body:
    def __init__(self, dim, idx, shape, dx, real_t, forcing, velocity, reset, shift=None, markers=None):
        import sopht.simulator as sps

        self.shift = shift  # eul_grid_coord_shift passed to the constructor (None = library default dx / 2)

        self.dim, self.idx, self.shape, self.dx = dim, idx, shape, dx
        cx = [shape[-1] * dx * (0.42 + 0.14 * idx), shape[-2] * dx * (0.5 + 0.03 * idx), (shape[0] * dx * 0.5 if dim == 3 else 0.0)]
        self.centre0 = np.array(cx)
        if dim == 2:
            self.body, _ = bodies.make_rigid("cylinder2d", bodies.rotations_2d()[0], self.centre0)
            cls, kw = sps.CircularCylinderForcingGrid, {"num_forcing_points": MARKER_RESOLUTIONS[markers][0]}
        else:
            self.body, _ = bodies.make_rigid("sphere", bodies.rotations_3d()[0], self.centre0)
            cls, kw = sps.SphereForcingGrid, {"num_forcing_points_along_equator": MARKER_RESOLUTIONS[markers][1]}
        self.pose = 0
        self.moving_start = bool(markers == "coarse")  # single-body cases with a coarse body also start moving
        self.apply_pose()  # the body is in its (possibly moving) start state BEFORE the interactor is constructed
        self.inter = sps.RigidBodyFlowInteraction(
            rigid_body=self.body, eul_grid_forcing_field=forcing, eul_grid_velocity_field=velocity,
            virtual_boundary_stiffness_coeff=K_STIFF, virtual_boundary_damping_coeff=C_DAMP, dx=dx, grid_dim=dim, real_t=real_t,
            forcing_grid_cls=cls, enable_eul_grid_forcing_reset=reset, **({} if shift is None else {"eul_grid_coord_shift": real_t(shift)}), **kw)
        n = self.inter.forcing_grid.num_lag_nodes
        # reference PI machine
        self.ref_integral = np.zeros((dim, n), dtype=LD)
        self.ref_last_mismatch = np.zeros((dim, n), dtype=LD)
        self.ref_time = 0.0
        self.ref_force = np.zeros((dim, n), dtype=LD)
        self.evaluated = False
        s = self.inter.forcing_grid.get_maximum_lagrangian_grid_spacing() ** (dim - 1)
        self.k, self.c = LD(K_STIFF) * LD(s), LD(C_DAMP) * LD(s)
        self.apply_pose()

    def apply_pose(self):
        p = self.pose
        b = self.body
        dx = self.dx
        shift = [np.zeros(3), np.array([0.6 * dx, -0.3 * dx, 0.45 * dx]), np.array([-1.1 * dx, 0.5 * dx, 0.0])][p]
        if self.dim == 2:
            shift = shift * np.array([1, 1, 0])
        b.position_collection[:, 0] = self.centre0 + shift
        # pose 0 of odd-numbered bodies is MOVING: the body already translates and spins when its interactor is constructed
        # and when the first event of a history (possibly a time step) arrives
        start = 1.0 if self.idx % 2 == 1 or self.moving_start else 0.0
        vels = [np.array([0.15, -0.1, 0.05]) * start, np.array([0.3, -0.2, 0.1]), np.array([-0.1, 0.25, -0.3])][p]
        oms = [np.array([0.1, 0.2, -0.3]) * start, np.array([0.2, -0.4, 0.7]), np.array([-0.5, 0.1, -0.3])][p]
        if self.dim == 2:
            vels = vels * np.array([1, 1, 0])
            oms = oms * np.array([0, 0, 1])
            rot = bodies.rotations_2d()[[0, 4, 5][p]]
        else:
            rot = bodies.rotations_3d()[[0, 24, 25][p]]
        b.velocity_collection[:, 0] = vels
        b.omega_collection[:, 0] = oms
        base = np.eye(3) if self.dim == 3 else np.array([[1.0, 0, 0], [0, 1, 0], [0, 0, 1]])
        b.director_collection[:, :, 0] = base @ rot.T

    def body_bytes(self):
        b = self.body
        return b"".join(a.tobytes() for a in (b.position_collection, b.director_collection, b.velocity_collection, b.omega_collection))


class System:
    def __init__(self, dim, nbodies, reset, dtype, shifts=None, markers=None):
        self.dim, self.nb, self.reset = dim, nbodies, reset
        shifts = shifts or [None] * nbodies
        self.real_t = np.dtype(dtype).type
        self.dx = lagcomm.DXS[0]
        self.shape = lagcomm.SHAPES[dim]
        n = int(np.prod(self.shape))
        i = np.arange(dim * n, dtype=np.float64)
        self.flows = [
            (np.sin(0.61 * i) + 0.3 * np.cos(1.7 * i + 1)).reshape((dim, *self.shape)).astype(self.real_t),
            (0.5 * np.cos(0.23 * i + 2) - 0.4 * np.sin(0.9 * i)).reshape((dim, *self.shape)).astype(self.real_t),
        ]
        self.flow_idx = 0
        self.velocity = self.flows[0].copy()
        self.forcing = np.zeros((dim, *self.shape), dtype=self.real_t)
        self.ref_forcing = np.zeros((dim, *self.shape), dtype=LD)
        self.ref_forcing_mag = np.zeros((dim, *self.shape), dtype=np.float64)
        self.ref_force_total = 0.0  # sum of |marker force| spread so far (absolute rounding scale of near-zero weights)
        self.bodies = [Body(dim, b, self.shape, self.dx, self.real_t, self.forcing, self.velocity, reset, shift=shifts[b], markers=(markers or [None] * nbodies)[b]) for b in range(nbodies)]

    # ---- reference model
    def ref_evaluate(self, b: Body, spread: bool):
        g = b.inter.forcing_grid
        # marker kinematics re-derived from the BODY state (rigid-section kinematics, as in C09), not read
        # from the forcing grid: a stale grid field must show up as a PI-law violation
        body = b.body
        Q = body.director_collection[:, :, 0]
        if self.dim == 2:
            r_glob = (Q.T[:2, :2] @ g.local_frame_relative_position_field)
            r3 = np.zeros((3, r_glob.shape[1]))
            r3[:2] = r_glob
        else:
            # the sphere grid keeps lab-frame offsets (its markers translate with the centre)
            r3 = g.global_frame_relative_position_field.copy() if not hasattr(g, "_verif_local") else Q.T @ g.local_frame_relative_position_field
        om_lab = Q.T @ body.omega_collection[:, 0]
        X = (body.position_collection + r3)[: self.dim]
        V = (body.velocity_collection + np.cross(om_lab, r3.T).T)[: self.dim]
        n = X.shape[1]
        U = np.zeros((self.dim, n), dtype=LD)
        W = []
        vel = self.velocity.astype(LD)
        for m in range(n):
            w = ref_weights(self.dim, self.shape, self.dx, X[:, m], b.shift)
            W.append(w)
            for k in range(self.dim):
                U[k, m] = (w * vel[k]).sum() * LD(self.dx) ** self.dim
        mismatch = U - V.astype(LD)
        b.ref_last_mismatch = mismatch
        b.ref_force = b.k * b.ref_integral + b.c * mismatch
        b.evaluated = True
        if spread:
            if self.reset:
                self.ref_forcing[...] = 0
                self.ref_forcing_mag[...] = 0
                self.ref_force_total = 0.0
            self.ref_force_total += float(np.abs(b.ref_force).sum())
            for m in range(n):
                for k in range(self.dim):
                    self.ref_forcing[k] += W[m] * b.ref_force[k, m]
                    self.ref_forcing_mag[k] += np.abs(W[m] * b.ref_force[k, m]).astype(np.float64)

    def apply(self, ev):
        kind, bi = ev[0], ev[1]
        b = self.bodies[bi] if bi is not None else None
        if kind == "E":
            b.inter()
            self.ref_evaluate(b, spread=True)
        elif kind == "L":
            b.inter.compute_flow_forces_and_torques()
            self.ref_evaluate(b, spread=False)
        elif kind in ("Ta", "Tb"):
            dt = DT_A if kind == "Ta" else DT_B
            b.inter.time_step(dt=dt)
            b.ref_integral = b.ref_integral + LD(dt) * b.ref_last_mismatch
            b.ref_time += dt
        elif kind == "M":
            b.pose = (b.pose + 1) % 3
            b.apply_pose()
        elif kind == "F":
            self.flow_idx = 1 - self.flow_idx
            self.velocity[...] = self.flows[self.flow_idx]
        return kind

    # ---- snapshot / restore of the whole mutable state
    def snapshot(self):
        snap = {"flow_idx": self.flow_idx, "velocity": self.velocity.copy(), "forcing": self.forcing.copy(), "ref_forcing": self.ref_forcing.copy(), "ref_mag": self.ref_forcing_mag.copy(), "ref_tot": self.ref_force_total, "bodies": []}
        for b in self.bodies:
            inter = b.inter
            arrs = {k: v.copy() for k, v in vars(inter).items() if isinstance(v, np.ndarray) and k not in ("eul_grid_forcing_field", "eul_grid_velocity_field")}
            garrs = {k: v.copy() for k, v in vars(inter.forcing_grid).items() if isinstance(v, np.ndarray)}
            scal = {k: v for k, v in vars(inter).items() if isinstance(v, (int, float, np.floating, np.integer))}
            body = {k: getattr(b.body, k).copy() for k in ("position_collection", "director_collection", "velocity_collection", "omega_collection")}
            snap["bodies"].append({"arrs": arrs, "garrs": garrs, "scal": scal, "body": body, "pose": b.pose, "ref": (b.ref_integral.copy(), b.ref_last_mismatch.copy(), b.ref_time, b.ref_force.copy(), b.evaluated)})
        return snap

    def restore(self, snap):
        self.flow_idx = snap["flow_idx"]
        self.velocity[...] = snap["velocity"]
        self.forcing[...] = snap["forcing"]
        self.ref_forcing[...] = snap["ref_forcing"]
        self.ref_forcing_mag[...] = snap["ref_mag"]
        self.ref_force_total = snap["ref_tot"]
        for b, s in zip(self.bodies, snap["bodies"]):
            for k, v in s["arrs"].items():
                getattr(b.inter, k)[...] = v
            for k, v in s["garrs"].items():
                getattr(b.inter.forcing_grid, k)[...] = v
            for k, v in s["scal"].items():
                setattr(b.inter, k, v)
            for k, v in s["body"].items():
                getattr(b.body, k)[...] = v
            b.pose = s["pose"]
            b.ref_integral, b.ref_last_mismatch, b.ref_time, b.ref_force, b.evaluated = s["ref"][0].copy(), s["ref"][1].copy(), s["ref"][2], s["ref"][3].copy(), s["ref"][4]

    def key(self):
        parts = [self.forcing, self.velocity]
        for b in self.bodies:
            parts += [b.inter.lag_grid_position_mismatch_field, b.inter.lag_grid_velocity_mismatch_field, b.inter.lag_grid_forcing_field, np.float64(b.inter.time), b.body.position_collection, b.body.director_collection, b.body.velocity_collection, b.body.omega_collection]
        return explore.array_state_key(*parts)


def case_history(dim, nbodies, reset, dtype, depth, shifts=None, markers=None):
    real_t = np.dtype(dtype).type
    eps = float(np.finfo(real_t).eps)
    events = []
    for b in range(nbodies):
        events += [("E", b), ("L", b), ("Ta", b), ("Tb", b), ("M", b)]
    events.append(("F", None))
    tag = f"dim={dim}:bodies={nbodies}:reset={reset}" + (f":shifts={shifts}" if shifts else "") + (f":markers={markers}" if markers else "")

    def build():
        return System(dim, nbodies, reset, dtype, shifts, markers)

    def apply_event(s, ev):
        s._pre_vel = s.velocity.tobytes()
        s._pre_body = [b.body_bytes() for b in s.bodies]
        s._pre_forcing = s.forcing.copy()
        return s.apply(ev)

    def check(s, hist, ev, obs):
        fl = []
        h = [list(e) for e in hist] + [list(ev)]
        if ev[0] != "F" and s.velocity.tobytes() != s._pre_vel:
            fl.append(Fail(f"{tag}:flow-velocity-modified", "an interaction event modified the flow velocity field", history=h))
        for bi, b in enumerate(s.bodies):
            if not (ev[0] == "M" and ev[1] == bi) and b.body_bytes() != s._pre_body[bi]:
                fl.append(Fail(f"{tag}:body-state-modified", "an interaction event modified the body state", history=h, body=bi))
            if b.inter.eul_grid_velocity_field.flags.writeable:
                fl.append(Fail(f"{tag}:velocity-view-writable", "the interactor's view of the flow velocity is writable", history=h))
            if float(b.inter.time) != b.ref_time:
                fl.append(Fail(f"{tag}:clock", "forcing clock differs from the sum of the dt values passed", history=h, got=float(b.inter.time), want=b.ref_time))
            integ = b.inter.lag_grid_position_mismatch_field.astype(LD)
            scale_i = float(np.abs(b.ref_integral).max()) + float(np.abs(b.ref_last_mismatch).max()) + 1e-300
            if not float(np.abs(integ - b.ref_integral).max()) <= 64 * eps * scale_i * (len(h) + 1):
                fl.append(Fail(f"{tag}:integral", "accumulated mismatch integral differs from Euler-forward integration over exactly the dt values passed", history=h, body=bi,
                               got=float(integ.ravel()[0]), want=float(b.ref_integral.ravel()[0])))
            if ev[0] in ("E", "L") and ev[1] == bi:
                force = b.inter.lag_grid_forcing_field.astype(LD)
                scale_f = float(np.abs(b.k) * np.abs(b.ref_integral).max() + np.abs(b.c) * (np.abs(b.ref_last_mismatch).max() + 1)) + 1e-300
                if not float(np.abs(force - b.ref_force).max()) <= 256 * eps * scale_f * (len(h) + 1):
                    m = int(np.argmax(np.abs(force - b.ref_force).max(0)))
                    fl.append(Fail(f"{tag}:pi-law", "marker force != stiffness * integral + damping * current mismatch (scaled by max marker spacing^(dim-1))", history=h, body=bi, marker=m,
                                   got=[float(v) for v in force[:, m]], want=[float(v) for v in b.ref_force[:, m]]))
        # relative to the sum of |contributions| per cell, plus the absolute error of near-zero weights
        # (C06: weights are accurate to a few eps (4 + index) / dx^d)
        ftol = (256 * eps * s.ref_forcing_mag + 8 * eps * 24 * s.ref_force_total / s.dx**s.dim + 1e-300) * (len(h) + 1)
        bad = ~(np.abs(s.forcing.astype(LD) - s.ref_forcing).astype(np.float64) <= ftol)
        if np.any(bad):
            fl.append(Fail(f"{tag}:eulerian-forcing", "Eulerian forcing field is not previous + spread force (accumulate mode) / the spread force (reset mode)", history=h, cells=int(bad.sum())))
        if ev[0] not in ("E",) and not np.array_equal(s.forcing, s._pre_forcing):
            fl.append(Fail(f"{tag}:eulerian-forcing-touched", "an event other than the full interaction changed the Eulerian forcing field", history=h))
        return fl

    res = explore.bfs_snap(build, events, apply_event, lambda s: s.key(), check, depth, snapshot=lambda s: s.snapshot(), restore=lambda s, sn: s.restore(sn))
    if res.states < 10:
        from harness.interp import HarnessError

        raise HarnessError("C10 vacuous: fewer than 10 states")
    return CaseResult(fails=res.fails, states=res.states, transitions=res.transitions, traces=res.transitions, outcome=f"{tag}:{dtype}:{res.states}",
                      extra={"bfs_states": res.states, "depth": res.depth_completed, "example_histories": res.histories})


def case_fresh_replay(dim, reset, dtype):
    """Differential control for the snapshot/restore search: a few histories replayed on freshly
    constructed objects must give the same bytes as the restored object."""
    hists = [[("E", 0), ("Ta", 0), ("M", 0), ("E", 0), ("Tb", 0), ("L", 0)], [("L", 0), ("Tb", 0), ("F", None), ("E", 0), ("E", 0)]]
    fails = []
    for h in hists:
        s1 = System(dim, 1, reset, dtype)
        snap = s1.snapshot()
        s1.apply(("E", 0))
        s1.apply(("Ta", 0))
        s1.restore(snap)
        for ev in h:
            s1.apply(ev)
        s2 = System(dim, 1, reset, dtype)
        for ev in h:
            s2.apply(ev)
        if s1.key() != s2.key():
            fails.append(Fail("harness:snapshot-restore", "state reached after restore differs from the state reached on fresh objects", history=[list(e) for e in h]))
    if fails:
        from harness.interp import HarnessError

        raise HarnessError("snapshot/restore does not capture the whole state: " + str(fails[0]))
    return CaseResult(states=len(hists), transitions=sum(len(h) for h in hists) * 2, traces=len(hists), outcome=f"replay:{dim}:{reset}")


CASES = {"history": case_history, "fresh_replay": case_fresh_replay}


def run(r) -> None:
    quick = r.tier == "quick"
    d1, d2 = (4, 3) if quick else (7, 5)
    cases = []
    for dim in (2, 3):
        for reset in (False, True):
            for dt in ("float64", "float32"):
                cases.append(dict(dim=dim, nbodies=1, reset=reset, dtype=dt, depth=d1))
                if not (quick and dt == "float32"):
                    cases.append(dict(dim=dim, nbodies=2, reset=reset, dtype=dt, depth=d2))
    # constructor options differing between bodies created in one process: the grid coordinate shift
    # (cell-centred default dx/2 vs a node-centred grid, shift 0) in both construction orders
    for dim in (2, 3):
        for shifts in ([None, 0.0], [0.0, None], [0.03125, None]):
            cases.append(dict(dim=dim, nbodies=2, reset=False, dtype="float64", depth=d2, shifts=shifts))
        cases.append(dict(dim=dim, nbodies=1, reset=True, dtype="float32", depth=d2, shifts=[0.0]))
    # marker spacing relative to the grid: a coarse and a finely resolved body next to each other / alone
    for dim in (2, 3):
        cases.append(dict(dim=dim, nbodies=2, reset=False, dtype="float64", depth=d2, markers=["coarse", "fine"]))
        cases.append(dict(dim=dim, nbodies=1, reset=True, dtype="float64", depth=d2, markers=["coarse"]))
    cases.sort(key=lambda c: -(c["nbodies"] * 10 + c["dim"]))
    r.run_cases("pi-history-bfs", "history", cases)
    r.run_cases("fresh-object-replay", "fresh_replay", [dict(dim=d, reset=x, dtype="float64") for d in (2, 3) for x in (False, True)])
    r.bounds = {"depth_one_body": d1, "depth_two_bodies": d2, "events": ["E_i", "L_i", "T_i(1/4)", "T_i(1/8)", "M_i (3 poses)", "F (2 flow fields)"], "modes": ["accumulate", "reset"], "grid_coordinate_shift": ["default dx/2", "0.0", "dx/4"], "construction_orders": "both", "marker_resolution": "default (ds ~ dx), coarse (ds > 2 dx), fine (ds < dx / 2)"}
    r.extra["rule"] = "BFS over event histories on real interaction objects; state = bytes of mismatch/forcing fields, clocks, body arrays, Eulerian forcing and velocity fields; states re-entered by snapshot/restore (validated against fresh-object replays)"
    r.assumptions = ["marker kinematics taken from the forcing grid (C09's subject)", "reference interpolation/spreading uses the cosine delta in longdouble (C06/C07's subject)"]
