#!/usr/bin/env python3
"""Confirm and evaluate a seeded property-breaking change.

usage: eval_seed.py <seed-id> <dir with patch.diff, demo.py, notes.md> --prop Cxx [--checks C01 C13 ...] [--skip-tests]

1. fresh scratch worktree of /repo under /tmp/wt/eval_<id>; demo.py must PASS there (unchanged source),
   then the patch is applied and demo.py must FAIL;
2. the repository's test-suite is run with the patch (in a scratch cwd): every BASELINE stable_pass test must still pass;
3. the patch is applied to /repo itself, the listed checks (default: all) run in the quick tier, /repo is restored;
4. everything is recorded in /verif/seeded/<id>/meta.json; the scratch worktree is removed.
"""
import argparse, json, os, shutil, subprocess, sys, time, xml.etree.ElementTree as ET

ap = argparse.ArgumentParser()
ap.add_argument("sid"); ap.add_argument("src")
ap.add_argument("--prop", required=True)
ap.add_argument("--checks", nargs="*")
ap.add_argument("--skip-tests", action="store_true")
ap.add_argument("--skip-checks", action="store_true", help="only the demo + test-suite phase (scratch worktree; can run in parallel for several seeds)")
ap.add_argument("--checks-only", action="store_true", help="only the checks phase (patch applied to /repo, restored afterwards)")
ap.add_argument("--tier", default="quick")
a = ap.parse_args()
V, REPO = "/verif", "/repo"
dst = f"{V}/seeded/{a.sid}"
os.makedirs(dst, exist_ok=True)
for f in ("patch.diff", "demo.py", "notes.md"):
    if os.path.exists(os.path.join(a.src, f)) and os.path.abspath(os.path.join(a.src, f)) != os.path.abspath(os.path.join(dst, f)):
        shutil.copy(os.path.join(a.src, f), os.path.join(dst, f))
meta = {"id": a.sid, "breaks_property": a.prop, "evaluated_at_repo_commit": subprocess.run(["git", "-C", REPO, "rev-parse", "--short", "HEAD"], capture_output=True, text=True).stdout.strip()}
wt = f"/tmp/wt/eval_{a.sid}"
if not a.checks_only:
    subprocess.run(["git", "-C", REPO, "worktree", "remove", "--force", wt], capture_output=True)
    subprocess.run(["git", "-C", REPO, "worktree", "add", "-q", "--detach", wt, "HEAD"], check=True)
env = dict(os.environ, PYTHONPATH=wt, NUMBA_CACHE_DIR=f"{wt}/.numba", XDG_CACHE_HOME="/verif/.cache/xdg", OMP_NUM_THREADS="1")
try:
    if a.checks_only:
        raise StopIteration
    def demo():
        r = subprocess.run(["/venv/bin/python", f"{dst}/demo.py"], capture_output=True, text=True, env=env, cwd=wt, timeout=3600)
        return r.returncode, (r.stdout + r.stderr)[-1500:]
    rc0, out0 = demo()
    meta["demo_unchanged"] = {"exit": rc0, "tail": out0[-400:]}
    ap_ = subprocess.run(["git", "-C", wt, "apply", f"{dst}/patch.diff"], capture_output=True, text=True)
    if ap_.returncode != 0:
        # patches written with a/ b/ prefixes relative to the worktree root
        ap_ = subprocess.run(["git", "-C", wt, "apply", "-p1", f"{dst}/patch.diff"], capture_output=True, text=True)
    meta["patch_applies"] = ap_.returncode == 0
    rc1, out1 = demo()
    meta["demo_with_change"] = {"exit": rc1, "tail": out1[-400:]}
    meta["demo_confirms"] = (rc0 == 0 and rc1 != 0)
    print(f"demo: unchanged exit={rc0}, with change exit={rc1}")
    if not a.skip_tests:
        os.makedirs("/var/tmp/bt", exist_ok=True)
        scratch = f"/var/tmp/bt/run_{a.sid}"
        shutil.rmtree(scratch, ignore_errors=True); os.makedirs(scratch)
        t = time.time()
        subprocess.run(["/venv/bin/python", "-m", "pytest", "-q", "-p", "no:cacheprovider", "--timeout=900", "--continue-on-collection-errors", f"--junitxml={scratch}/j.xml", f"--rootdir={wt}", f"{wt}/tests"],
                       capture_output=True, text=True, env=env, cwd=wt)
        b = json.load(open("/root/.vp/BASELINE.json"))
        res = {}
        for tc in ET.parse(f"{scratch}/j.xml").iter("testcase"):
            res[f"{tc.get('classname')}::{tc.get('name')}"] = not any(c.tag in ("failure", "error", "skipped") for c in tc)
        miss = [n for n in b["stable_pass"] if not res.get(n)]
        meta["tests"] = {"baseline_stable_pass": len(b["stable_pass"]), "now_failing": miss[:10], "n_now_failing": len(miss), "passing_now": sum(res.values()), "wall_s": round(time.time() - t)}
        print("tests:", meta["tests"])
        shutil.rmtree(scratch, ignore_errors=True)
        subprocess.run(["git", "-C", wt, "clean", "-fdq"], capture_output=True)
except StopIteration:
    pass
finally:
    subprocess.run(["git", "-C", REPO, "worktree", "remove", "--force", wt], capture_output=True)
if a.skip_checks:
    old = json.load(open(f"{dst}/meta.json")) if os.path.exists(f"{dst}/meta.json") else {}
    old.update(meta)
    json.dump(old, open(f"{dst}/meta.json", "w"), indent=1)
    sys.exit(0)
# run checks against /repo with the patch applied
assert subprocess.run(["git", "-C", REPO, "status", "--porcelain", "--untracked-files=no"], capture_output=True, text=True).stdout.strip() == "", "repo dirty"
checks = a.checks or [f"C{i:02d}" for i in range(1, 21)]
results = {}
try:
    r = subprocess.run(["git", "-C", REPO, "apply", f"{dst}/patch.diff"], capture_output=True, text=True)
    assert r.returncode == 0, r.stderr
    for c in checks:
        t = time.time()
        r = subprocess.run(["/venv/bin/python", f"{V}/run.py", c, "--tier", a.tier], capture_output=True, text=True)
        keys = [l.strip() for l in r.stdout.splitlines() if l.strip().startswith("violated:")]
        results[c] = {"exit": r.returncode, "violated": [k[:220] for k in keys[:4]], "wall_s": round(time.time() - t)}
        print(f"  {c}: exit={r.returncode} {keys[:1]}")
finally:
    subprocess.run(["git", "-C", REPO, "checkout", "--", "."], check=True)
    subprocess.run(["git", "-C", V, "checkout", "--", "evidence"], capture_output=True)
key = "checks_quick" if a.tier == "quick" else "checks_thorough"
prev = {}
if os.path.exists(f"{dst}/meta.json"):
    prev = json.load(open(f"{dst}/meta.json")).get(key, {})
    first = json.load(open(f"{dst}/meta.json")).get("first_evaluation")
    if first is None and prev:
        meta["first_evaluation"] = {"caught_by": json.load(open(f"{dst}/meta.json")).get("caught_by", []), key: prev}
prev.update(results)
meta[key] = prev
results = prev
meta["caught_by"] = [c for c, v in results.items() if v["exit"] == 1]
meta["harness_errors"] = [c for c, v in results.items() if v["exit"] not in (0, 1)]
old = {}
if os.path.exists(f"{dst}/meta.json"):
    old = json.load(open(f"{dst}/meta.json"))
old.update(meta)
json.dump(old, open(f"{dst}/meta.json", "w"), indent=1)
print("caught by:", meta["caught_by"], "harness errors:", meta["harness_errors"])
