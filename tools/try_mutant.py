#!/usr/bin/env python3
"""Apply a textual one-line mutation (or a patch file) to /repo, run checks, always revert.

usage: try_mutant.py --file sopht/x.py --old 'a' --new 'b' [--count N] -- C03 C14 ...
       try_mutant.py --patch /verif/seeded/x/patch.diff -- C03
Never leaves /repo modified (git checkout of the touched files in a finally block)."""
import argparse, subprocess, sys, os, time

ap = argparse.ArgumentParser()
ap.add_argument("--file"); ap.add_argument("--old"); ap.add_argument("--new")
ap.add_argument("--nth", type=int, default=0, help="which occurrence (0-based); -1 = all")
ap.add_argument("--patch")
ap.add_argument("--tier", default="quick")
ap.add_argument("--tests", action="store_true", help="also run the pinned baseline tests")
ap.add_argument("checks", nargs="*")
a = ap.parse_args()
REPO = "/repo"
assert subprocess.run(["git", "-C", REPO, "status", "--porcelain", "--untracked-files=no"], capture_output=True, text=True).stdout.strip() == "", "repo dirty"
try:
    if a.patch:
        subprocess.run(["git", "-C", REPO, "apply", a.patch], check=True)
    else:
        p = os.path.join(REPO, a.file)
        s = open(p).read()
        n = s.count(a.old)
        assert n >= 1, f"pattern not found in {a.file}"
        if a.nth == -1:
            s2 = s.replace(a.old, a.new)
        else:
            parts = s.split(a.old)
            assert a.nth < n, f"only {n} occurrences"
            s2 = a.old.join(parts[: a.nth + 1]) + a.new + a.old.join(parts[a.nth + 1 :])
        open(p, "w").write(s2)
    print(subprocess.run(["git", "-C", REPO, "diff", "--stat"], capture_output=True, text=True).stdout)
    for c in a.checks:
        t = time.time()
        r = subprocess.run(["/venv/bin/python", "/verif/run.py", c, "--tier", a.tier], capture_output=True, text=True)
        lines = [l for l in (r.stdout + r.stderr).splitlines() if "VIOLATION" in l or "violated" in l or "HARNESS" in l or l.startswith(c)]
        print(f"== {c}: exit={r.returncode} ({time.time()-t:.0f}s)")
        for l in lines[:12]:
            print("   ", l[:400])
    if a.tests:
        r = subprocess.run("cd /repo && /venv/bin/python -m pytest -q -p no:cacheprovider --timeout=900 --continue-on-collection-errors -x -q 2>&1 | tail -3", shell=True, capture_output=True, text=True)
        print(r.stdout)
finally:
    subprocess.run(["git", "-C", REPO, "checkout", "--", "."], check=True)
    subprocess.run(["git", "-C", "/verif", "checkout", "--", "evidence"], capture_output=True)
