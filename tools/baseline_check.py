#!/usr/bin/env python3
"""Compare a junit xml of the repository test suite with BASELINE.json's stable_pass list."""
import json, sys, xml.etree.ElementTree as ET
b = json.load(open('/root/.vp/BASELINE.json'))
t = ET.parse(sys.argv[1])
res = {}
for tc in t.iter('testcase'):
    name = f"{tc.get('classname')}::{tc.get('name')}"
    res[name] = not any(c.tag in ('failure', 'error', 'skipped') for c in tc)
miss = [n for n in b['stable_pass'] if not res.get(n)]
print("stable_pass", len(b['stable_pass']), "now failing/missing:", len(miss), miss[:5], "total passing now:", sum(res.values()))
sys.exit(1 if miss else 0)
