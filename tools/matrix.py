#!/usr/bin/env python3
"""Detection matrix: every seeded change x every check (quick tier), without touching /repo.

For each /verif/seeded/<id>/patch.diff a scratch worktree of /repo is created under /tmp/wt, the patch
is applied there, and the checks import that tree (SOPHT_VERIF_REPO) with evidence / replays
redirected to a scratch directory. Results go to /verif/seeded/MATRIX.json and into each meta.json
(`matrix_quick`). Worktrees are removed afterwards."""
import json, os, subprocess, sys, time, shutil
V = "/verif"
seeds = sorted(d for d in os.listdir(f"{V}/seeded") if os.path.exists(f"{V}/seeded/{d}/patch.diff"))
sel = [a for a in sys.argv[1:] if not a.startswith("--")]
if sel:
    seeds = [s for s in seeds if s in sel]
checks = [f"C{i:02d}" for i in range(1, 21)]
matrix = {}
if os.path.exists(f"{V}/seeded/MATRIX.json"):
    matrix = json.load(open(f"{V}/seeded/MATRIX.json"))
# ONE long-lived worktree: patches are applied and reversed in place so that only the touched files get a
# new mtime (numba re-compiles only those); its numba cache lives in /var/tmp/matrix_numba
wt = "/tmp/wt/matrix"
if not os.path.isdir(wt):
    subprocess.run(["git", "-C", "/repo", "worktree", "add", "-q", "--detach", wt, "HEAD"], check=True)
for sid in seeds:
    if sid in matrix and "--redo" not in sys.argv:
        continue
    scratch = "/var/tmp/matrix_scratch"
    shutil.rmtree(scratch, ignore_errors=True); os.makedirs(scratch)
    try:
        r = subprocess.run(["git", "-C", wt, "apply", f"{V}/seeded/{sid}/patch.diff"], capture_output=True, text=True)
        assert r.returncode == 0, r.stderr
        env = dict(os.environ, SOPHT_VERIF_REPO=wt, VERIF_EVIDENCE_DIR=f"{scratch}/evidence", VERIF_REPLAY_DIR=f"{scratch}/replays",
                   NUMBA_CACHE_DIR="/var/tmp/matrix_numba", XDG_CACHE_HOME="/verif/.cache/xdg")
        row = {}
        for c in checks:
            t = time.time()
            r = subprocess.run(["/venv/bin/python", f"{V}/run.py", c, "--tier", "quick"], capture_output=True, text=True, env=env)
            keys = [l.strip()[10:].split("]")[0] + "]" for l in r.stdout.splitlines() if l.strip().startswith("violated:")]
            row[c] = {"exit": r.returncode, "keys": keys[:3], "wall_s": round(time.time() - t)}
            print(sid, c, r.returncode, keys[:1], flush=True)
        matrix[sid] = row
        m = json.load(open(f"{V}/seeded/{sid}/meta.json"))
        m["matrix_quick"] = {c: v["exit"] for c, v in row.items()}
        m["caught_by"] = [c for c, v in row.items() if v["exit"] == 1]
        m["harness_errors"] = [c for c, v in row.items() if v["exit"] not in (0, 1)]
        json.dump(m, open(f"{V}/seeded/{sid}/meta.json", "w"), indent=1)
        json.dump(matrix, open(f"{V}/seeded/MATRIX.json", "w"), indent=1)
    finally:
        subprocess.run(["git", "-C", wt, "apply", "-R", f"{V}/seeded/{sid}/patch.diff"], capture_output=True)
        subprocess.run(["git", "-C", wt, "checkout", "--", "."], capture_output=True)
        shutil.rmtree(scratch, ignore_errors=True)
if "--keep" not in sys.argv:
    subprocess.run(["git", "-C", "/repo", "worktree", "remove", "--force", wt], capture_output=True)
    shutil.rmtree("/var/tmp/matrix_numba", ignore_errors=True)
print("done")
