#!/usr/bin/env python3
"""Regenerate MANIFEST.json from tools/manifest_src.py (single source of truth)."""
import json, sys
sys.path.insert(0, "/verif/tools")
import manifest_src as m
props = [json.loads(l)["id"] for l in open("/verif/properties.jsonl")]
checks = []
for pid in props:
    if pid not in m.CHECKS:
        continue
    c = m.CHECKS[pid]
    checks.append({
        "property_id": pid,
        "quick_cmd": f"/venv/bin/python run.py {pid} --tier quick",
        "thorough_cmd": f"/venv/bin/python run.py {pid} --tier thorough",
        "evidence_file": f"/verif/evidence/{pid}.json",
        "replay_cmd_template": f"/venv/bin/python run.py {pid} --replay {{path}}",
        "engine": c.get("engine", "py-explorer"),
        "level_claimed": {"category": c.get("category", "model_checking"), "text": c["text"], "design_ref": c["design_ref"]},
        "level_note": c["note"],
        "technique": c["technique"],
    })
na = [{"property_id": p, "reason": m.NOT_APPLICABLE.get(p, "check not built yet in this round; see DESIGN.md section 5 for the planned bounded exhaustive exploration")} for p in props if p not in m.CHECKS]
man = {
    "version": 1,
    "setup_cmd": m.SETUP,
    "hooks": m.HOOKS,
    "engines": m.ENGINES,
    "checks": checks,
    "notes": m.NOTES,
    "not_applicable": na,
}
import jsonschema
jsonschema.validate(man, json.load(open("/root/.vp/MANIFEST.schema.json")))
json.dump(man, open("/verif/MANIFEST.json", "w"), indent=1)
print("checks:", [c["property_id"] for c in checks], "n/a:", [x["property_id"] for x in na])
