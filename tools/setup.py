#!/venv/bin/python
"""MANIFEST.setup_cmd: build caches from files on disk only (offline). Safe to re-run."""
import os, subprocess, sys
from pathlib import Path
V = Path(__file__).resolve().parent.parent
sys.path.insert(0, str(V))
from harness import shim
shim.setup_env()
for d in ("evidence", "replays"):
    (V / d).mkdir(exist_ok=True)
print("setup: cache dirs ready under", V / ".cache")

import multiprocessing as mp
if __name__ == "__main__":
    shim.install()
    from harness import conform
    pool = mp.get_context("spawn").Pool(min(16, os.cpu_count() or 1))
    s = conform.ensure(pool=pool)
    # pre-compile the numba closures used by C06-C10/C15/C18 (disk cache; safe to re-run)
    import subprocess
    for c in ("C06", "C07", "C08", "C10", "C15", "C18"):
        subprocess.run([sys.executable, str(V / "run.py"), c, "--tier", "quick"], capture_output=True)
        subprocess.run(["git", "-C", str(V), "checkout", "--", f"evidence/{c}.json"], capture_output=True)
    pool.close(); pool.join()
    print("setup: conformance", {k: (v if not isinstance(v, list) else len(v)) for k, v in s.items()})
