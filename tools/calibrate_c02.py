#!/venv/bin/python
"""One-off calibration of the C02 absolute error bounds on the unchanged tree (factor-2 margin).
Writes checks/c02_bounds.json; re-run only deliberately (the file is committed)."""
import json, sys, multiprocessing as mp
from pathlib import Path
V = Path(__file__).resolve().parent.parent
sys.path.insert(0, str(V))
from harness import shim

def work(f):
    shim.install()
    from checks import c02
    out = []
    for n in f["resolutions"]:
        e, steps, finite, eu = c02.run_one(f["kind"], n, f["centre"], f["strength"], f["nu"], f["direction"], f["dtype"], f.get("aspect", "square"))
        out.append((f"{f['kind']}|{f['dtype']}|{n}", e))
        if f["kind"] == "ns2d":
            out.append((f"{f['kind']}|{f['dtype']}|{n}|velocity", eu))
    return out

if __name__ == "__main__":
    shim.install()
    from checks import c02
    fams = c02.families("thorough") + c02.families("quick")
    with mp.get_context("spawn").Pool(16) as pool:
        res = pool.map(work, fams)
    worst = {}
    for r in res:
        for k, e in r:
            worst[k] = max(worst.get(k, 0.0), e)
    bounds = {k: 2.0 * v for k, v in sorted(worst.items())}
    (V / "checks" / "c02_bounds.json").write_text(json.dumps(bounds, indent=1))
    print(json.dumps(bounds, indent=1))
