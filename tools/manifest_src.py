SETUP = "/venv/bin/python tools/setup.py"
HOOKS = {
    "guard": "SOPHT_TEAM_SOPHT_VERIF",
    "enable": "no source hooks: checks import /repo's working tree (editable install) inside a process in which harness/shim.py interposes on pystencils.create_kernel / CreateKernelConfig; the guard variable is set by the harness but no repository code reads it",
    "baseline_off_cmd": "cd /repo && /venv/bin/python -m pytest -ra -q -p no:cacheprovider --timeout=900 --continue-on-collection-errors",
    "source_commits": [],
    "add_only": True,
}
ENGINES = [
    {"name": "py-explorer", "path": "/verif/harness", "serves_properties": [],
     "kind_free_text": "hand-written explicit-state / bounded-exhaustive explorer in Python driving the real SophT objects: deviation-bounded product lattices, basis enumeration of linear operators, BFS over operation histories with canonical state hashing, per-cell schedule enumeration on captured pystencils assignment collections (interpreter bound to the generated code by conformance replay), crash/resume-point enumeration"},
]
NOTES = "All checks: /venv/bin/python run.py <id> --tier quick|thorough [--replay f]; evidence in /verif/evidence; known findings in /verif/known_findings.json; design in DESIGN.md."
NOT_APPLICABLE = {}
CHECKS = {
    "C03": {
        "text": "Exhaustive within bounds: the complete operator matrix of the real 2-D/3-D unbounded solvers (every unit impulse on every grid shape in the stated range, three domain lengths, both precisions) is compared entry by entry with the directly summed free-space Green's function, and a breadth-first search over all histories of solves / vector solves / scratch-buffer poisonings up to the stated depth checks history independence on real solver objects. For a linear operator the impulse basis decides the whole operator on that shape, so this is a decision, not a sample, for every enumerated shape.",
        "design_ref": "DESIGN.md section 5 C03, sections 4.2 and 4.3",
        "note": "Trusted: FFTW as an opaque linear operator (results compared up to rounding), the interpreter back end for the three element-wise kernels (bound to the generated code by conformance replay), the 40-line reference in refmodel/greens.py. Shapes beyond the enumerated range are not covered.",
        "technique": "basis enumeration of the full operator matrix + explicit-state BFS over operation histories on the real solver objects",
    },
}
