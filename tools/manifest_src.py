SETUP = "/venv/bin/python tools/setup.py"
HOOKS = {
    "guard": "SOPHT_TEAM_SOPHT_VERIF",
    "enable": "no source hooks: checks import /repo's working tree (editable install) inside a process in which harness/shim.py interposes on pystencils.create_kernel / CreateKernelConfig; the guard variable is set by the harness but no repository code reads it",
    "baseline_off_cmd": "cd /repo && /venv/bin/python -m pytest -ra -q -p no:cacheprovider --timeout=900 --continue-on-collection-errors --junitxml=<file>",
    "source_commits": [],
    "add_only": True,
}
ENGINES = [
    {"name": "py-explorer", "path": "/verif/harness", "serves_properties": [],
     "kind_free_text": "hand-written explicit-state / bounded-exhaustive explorer in Python driving the real SophT objects: deviation-bounded product lattices, basis enumeration of linear operators, BFS over operation histories with canonical state hashing, per-cell schedule enumeration on captured pystencils assignment collections (interpreter bound to the generated code by conformance replay), crash/resume-point enumeration"},
]
NOTES = "All checks: /venv/bin/python run.py <id> --tier quick|thorough [--replay f]; evidence in /verif/evidence; known findings in /verif/known_findings.json; design in DESIGN.md."
NOT_APPLICABLE = {}
CHECKS = {
    "C03": {
        "text": "Exhaustive within bounds: the complete operator matrix of the real 2-D/3-D unbounded solvers (every unit impulse on every grid shape in the stated range, three domain lengths, both precisions) is compared entry by entry with the directly summed free-space Green's function, and a breadth-first search over all histories of solves / vector solves / scratch-buffer poisonings up to the stated depth checks history independence on real solver objects. For a linear operator the impulse basis decides the whole operator on that shape, so this is a decision, not a sample, for every enumerated shape.",
        "design_ref": "DESIGN.md section 5 C03, sections 4.2 and 4.3",
        "note": "Trusted: FFTW as an opaque linear operator (results compared up to rounding), the interpreter back end for the three element-wise kernels (bound to the generated code by conformance replay), the 40-line reference in refmodel/greens.py. Shapes beyond the enumerated range are not covered.",
        "technique": "basis enumeration of the full operator matrix + explicit-state BFS over operation histories on the real solver objects",
    },
    "C05": {
        "text": "Exhaustive within bounds, exact arithmetic: every differential operator is driven through its public wrapper on every monomial of the stated degree (a basis of the polynomial space the property quantifies over), sampled on the simulator's own coordinate convention, at every interior cell of a non-cubic grid and three rational spacings, and compared with == against the analytically differentiated polynomial. Because the operators are linear and translation invariant, agreement on the monomial basis at all interior cells decides polynomial exactness for that stencil; ENO3 is enumerated over its four (front, back) upwind patterns per axis.",
        "design_ref": "DESIGN.md section 5 C05, section 4.2",
        "note": "Trusted: the interpreter's exact mode (float literals rationalised, bound to the generated code by conformance replay in float mode), the 60-line polynomial class in refmodel/poly.py. One grid shape per dimension.",
        "technique": "basis enumeration (monomials x interior cells x upwind branch patterns) in exact rational arithmetic on captured kernels through the real wrappers",
    },
    "C20": {
        "text": "Exhaustive within bounds: for a frozen velocity every unit vorticity impulse (component x cell) of small non-cubic grids is pushed through the real SSP-RK3 and Euler stretching kernels; the Euler flux operator A is collected as a full matrix from the library's own flux kernel and the outputs must equal (I + A + A^2/2 + A^3/6) e resp. (I + A) e. Euler advection/diffusion kernels are checked in exact arithmetic against field + flux(field) for every velocity sign pattern of the alphabet. For the linear maps involved the impulse basis decides the operator identity on that grid.",
        "design_ref": "DESIGN.md section 5 C20, section 4.2",
        "note": "Trusted: interpreter back end (the 4-D element-wise kernels cannot be built by the installed pystencils, so they are unbound); identity checked to 64 eps for SSP-RK3 (runtime float stage weights), exactly for Euler kernels.",
        "technique": "basis enumeration of the full step operator vs polynomial in the library's own flux operator; exact-arithmetic enumeration over velocity sign patterns",
    },
    "C12": {
        "text": "Exhaustive within bounds, exact arithmetic: the identities (div curl = 0; 2-D curl of a stream function divergence-free and curl-curl = wide five-point negative Laplacian; forcing update = prefactor * library curl; penalised update = forcing update of the difference) are linear in the field, so they are decided on a grid by the unit impulses; every impulse (component x cell) of non-cubic grids is pushed through the real wrapper closures on Fraction arrays and compared with ==. The 3-D simulator's own divergence monitor is additionally driven after a curl-type update.",
        "design_ref": "DESIGN.md section 5 C12, section 4.2",
        "note": "Trusted: interpreter exact mode on captured kernels (bound by conformance replay); enumerated grid shapes only.",
        "technique": "basis enumeration (all unit impulses) in exact rational arithmetic through the real kernel wrappers (keyword and positional calls); the update identity repeated on the generated code with mixed argument layouts; simulator monitor with transport on grids long along each axis",
    },
    "C04": {
        "text": "Exhaustive within bounds: (a) the face-flux identity is checked on the captured front/back ENO3 kernels for every ordered pair of face velocities of the alphabet (all sign patterns, exact ties, signed zeros, denormals) and every nodal impulse, on every axis in 2-D and 3-D, in exact arithmetic and IEEE double; (b) telescoping of every conservative operator is checked for every interior impulse in exact arithmetic through the public wrappers; (c) a deviation-bounded lattice over simulator configurations and field patterns checks the grid sum across a real time_step.",
        "design_ref": "DESIGN.md section 5 C04, sections 4.1 and 4.2",
        "note": "Trusted: interpreter (bound by conformance replay); (c) is small-scope over the listed alphabets with a rounding tolerance of 64 eps times the sum of absolute terms.",
        "technique": "exhaustive enumeration of velocity-pair x impulse lattices on captured kernels (exact) + deviation-bounded configuration lattice on the real simulators",
    },
    "C11": {
        "text": "Exhaustive within bounds: every unit impulse (plus the constant and a dense vector) on every grid shape of the stated range, three spacings and both precisions is solved by the real 2-D/3-D fast-diagonalisation solvers and checked against an independently assembled dense Neumann Laplacian (A u = f - mean f, mean u = 0, real, working precision); a BFS over histories of solves / vector solves / spectral-buffer poisonings checks buffer reuse. The solver is linear, so the impulse basis decides it on each enumerated shape.",
        "design_ref": "DESIGN.md section 5 C11, sections 4.2 and 4.3",
        "note": "Trusted: LAPACK; residual tolerance 64 eps cond(A) ||f|| with the analytic condition number of the Neumann Laplacian (calibrated <= 4 eps cond on the unchanged tree); right-hand sides: unit impulses, all cosine eigenmodes, constant, dense, amplitudes 1e-20..1e10. Large shapes (> 160 cells) use a strided subset of impulses (reported in the evidence).",
        "technique": "basis enumeration of the full solution operator vs dense reference matrix + explicit-state BFS over solver histories",
    },
    "C16": {
        "text": "Exhaustive within bounds: the full product of simulator class x grid (incl. 256^2 and 96^3) x precision x viscosity x CFL x prefactor x velocity pattern (zero, uniform, spike, alternating, single component) is pushed through the public compute_stable_timestep and checked against both limits; the diffusion time-step kernels are collected as exact matrices (unit impulses, Fraction arithmetic) at the stated limit beta = 0.9/(2d) and at a beta derived from a returned dt: all entries non-negative, rows sum to one, ring rows identity - which is the maximum principle for every field.",
        "design_ref": "DESIGN.md section 5 C16, sections 4.1 and 4.2",
        "note": "Trusted: interpreter exact mode for the diffusion kernels. Velocity fields are drawn from a five-member alphabet; the formula depends on the field only through max sum |u|.",
        "technique": "full product lattice over configurations on the real simulators + exact basis enumeration of the diffusion step matrix",
    },
    "C17": {
        "text": "Exhaustive within bounds: a deviation-bounded lattice over registry configurations (dimension, precision, Eulerian field sets, 0-2 Lagrangian grids with 0-2 scalar and vector fields each, marker counts incl. N == dim, content alphabet with NaN payloads / infinities / denormals / signed zero / max, naming alphabet, time stamps, IO classes) is saved through the real IO objects, the HDF5 layout is inspected with h5py directly, the file is loaded into freshly allocated arrays and compared byte for byte; a mismatch lattice (one deviation of the loading registry at a time) requires load() to raise.",
        "design_ref": "DESIGN.md section 5 C17, section 4.1",
        "note": "Trusted: h5py/HDF5. Field contents come from a six-member alphabet placed at the first/last element; IO is a byte copy, so content position is not explored further.",
        "technique": "deviation-bounded product lattice of registry configurations driven through the real save/load path with a byte-equality oracle",
    },
    "C06": {
        "text": "Exhaustive within bounds: the per-axis sub-cell offset alphabet (cell centre, +-1 and +-4 ulp, quarter, face -+1 ulp, three-quarter, next centre -1 ulp) is crossed over ALL axes and over base cells near both boundaries and mid-domain, for both kernels, both precisions, three spacings, 2-D and 3-D, and every resulting marker position is pushed through the real numba support / weights / interpolation closures; the oracle evaluates the delta functions in longdouble at exact rational distances. Includes thousands of positions where the floor index slips by one.",
        "design_ref": "DESIGN.md section 5 C06, section 4.1",
        "note": "Trusted: numba as compiler of the closures (fastmath); tolerances 4 eps (4 + |x|/dx) relative to (1/dx)^d. Marker positions outside the offset alphabet are not explored; the weights are smooth functions of the offset between alphabet members.",
        "technique": "full cross-product lattice of sub-cell offsets x base cells on the real closures against a longdouble/rational reference",
    },
    "C07": {
        "text": "Exhaustive within bounds: for each enumerated marker set (spread out, mixed: same cell / identical / pairwise overlapping / diagonal neighbours, all in one cell, all identical) the full interpolation matrix (unit impulse in every cell and component of the union of supports) and the full spreading matrix (unit force per marker and component) are collected from the real closures and compared entry by entry (S dx^d = I^T), with force and (Peskin) torque conservation per column; a BFS over spreading histories checks exact accumulation. Both maps are linear, so the impulse bases decide them for each marker set.",
        "design_ref": "DESIGN.md section 5 C07, sections 4.2 and 4.3",
        "note": "Trusted: numba; marker sets are a finite alphabet (batch of 8 markers).",
        "technique": "basis enumeration of interpolation and spreading matrices on the real closures + explicit-state BFS over spreading histories",
    },
    "C08": {
        "text": "Exhaustive within bounds: lattice over forcing-grid type (4 rigid, 7 rod variants) x body parameters (element count, taper, bend, surface density, caps) x pose alphabet (24 cube rotations + 3 generic, off-origin) and, per case, the complete basis of unit marker forces (every marker x component): net force, net moment about two points (rigid bodies and off-node rod grids) and power balance (rigid bodies, 6 unit body velocities). The transfer is linear in the marker forces, so the basis decides it per pose. The full ImmersedBodyFlowInteraction / FlowForces path is driven on a real velocity field for eight body kinds.",
        "design_ref": "DESIGN.md section 5 C08, sections 4.1 and 4.2",
        "note": "Trusted: PyElastica containers; poses from a finite alphabet (rotations act linearly, generic rotations included).",
        "technique": "product lattice of grids x poses with basis enumeration over unit marker forces on the real forcing-grid objects",
    },
    "C09": {
        "text": "Exhaustive within bounds: lattice over forcing grids x body parameters x poses and the complete basis of body velocities (6 unit (V, Omega) for rigid bodies; every node x component and every element x material-frame angular component for rods) against V + Omega_lab x r; body-fixed rigid grids additionally advance the pose with PyElastica's own kinematic update at two step sizes and require second-order agreement (error ratio 3..5); marker offsets are checked against radius x cap ratio. Marker velocity is linear in the body velocities, so the basis decides it per pose.",
        "design_ref": "DESIGN.md section 5 C09, sections 4.1 and 4.2",
        "note": "Trusted: PyElastica's kinematic update as the definition of 'advancing the pose'.",
        "technique": "product lattice of grids x poses with basis enumeration over unit body velocities on the real forcing-grid objects",
    },
    "C10": {
        "text": "Exhaustive within bounds: explicit-state breadth-first search over all event histories (full interaction, body-force evaluation, time_step(1/4), time_step(1/8), move body, switch flow field; per body) up to the stated depth on real ImmersedBodyFlowInteraction objects (2-D cylinder, 3-D sphere; one body and two bodies sharing the forcing field; accumulate and reset mode; both precisions), with a reference PI machine stepped in lock-step and invariants (clock, integral, PI law with spacing^(dim-1) scaling, Eulerian forcing accumulate/overwrite, flow velocity and body arrays byte-identical, read-only view) evaluated after every transition.",
        "design_ref": "DESIGN.md section 5 C10, section 4.3",
        "note": "Trusted: marker kinematics (C09) and delta kernels (C06/C07) enter the reference through their own references; states are re-entered by snapshot/restore of every array and scalar attribute, validated by replaying histories on freshly constructed objects.",
        "technique": "explicit-state BFS over operation histories on the real interaction objects with a lock-step reference model",
    },
    "C01": {
        "text": "Small-scope exhaustive: a deviation-bounded lattice (deviation 2 quick / 3 thorough, plus the full filter x solver cross with forcing and free stream on) over simulator class x forcing x free stream x filter type/order x Poisson solver x zone width 0..4 x precision x non-square/non-cubic shapes x (dt, nu, rho) x state / velocity / forcing pattern alphabets x history length 1..2; every executed step of every tuple is compared cell by cell with an independent NumPy reference (direct-summation Green's function or dense Neumann solve, conservative ENO3, rotational form, filters, zone damping), plus exact clock advance and forcing reset. A negative control (reference with nu changed by 0.1%) must be rejected on every run.",
        "design_ref": "DESIGN.md section 5 C01, section 4.1",
        "note": "Bounded: field values come from finite pattern alphabets on grids of about 12 cells a side; a defect that needs a specific real value outside every alphabet and is invisible on the linear/branch structure would be missed (DESIGN section 6). Interpreter back end bound to generated code by conformance replay.",
        "technique": "deviation-bounded product lattice of configurations x patterns x histories on the real simulators against an independent reference model",
    },
    "C14": {
        "text": "Small-scope exhaustive: every element of the grid symmetry group (8 in 2-D, 48 in 3-D, transpositions mapping an (ny,nx) simulator to an (nx,ny) one) x deviation-bounded lattice of simulator configurations; two real simulators are stepped and compared after transforming (vorticity as pseudo-scalar/pseudo-vector, velocity/forcing/free stream as vectors). The oracle transcribes no formula.",
        "design_ref": "DESIGN.md section 5 C14, section 4.1",
        "note": "Bounded: one generic compactly supported state per configuration (VERIF_SEED rotates it); zero face sums are excluded as the property states.",
        "technique": "exhaustive enumeration of the symmetry group x configuration lattice with a metamorphic (commutation) oracle on the real simulators",
    },
    "C13": {
        "text": "Exhaustive within bounds: every public generator x option combination (95 tuples) x precision x four shapes from the minimal admissible size up (non-cubic) x four binding kinds (contiguous, every-other-element strided, offset slice of a larger array, Fortran-ordered) x dense and impulse patterns; outputs pre-filled with a NaN-payload sentinel; values on the documented region compared with closed-form NumPy references, everything else (rest of outputs, all inputs, the parent arrays around views) compared as raw bytes. A per-case negative control proves the comparison sees a 0.1% error. Thorough tier repeats everything on the real pystencils->g++ back end.",
        "design_ref": "DESIGN.md section 5 C13, section 4.1",
        "note": "Quick tier runs the captured assignment collections on the interpreter, which is bound to the generated code by conformance replay (contiguous and strided bindings, all shapes minimal..minimal+2). Two value patterns per case.",
        "technique": "full product lattice generator x options x shape x binding x pattern x scalar-argument value/type x call style (keyword, positional, in place, temporary views) with closed-form and byte-equality oracles; every generator once more on the generated code with a different memory layout per argument",
    },
    "C19": {
        "text": "Exhaustive within bounds: Brinkmann penalisation (all Eulerian variants and the Lagrangian one) over the full product of the (u, u_b, lambda, chi) alphabets incl. 1e6 and 1e9; the characteristic function over the level-set alphabet with +-1 ulp around +-blend width; boundary damping over widths 0..6 x shapes from 2w+1 x five patterns x scalar/vector, 2-D/3-D; filters: exact impulse responses for orders 1..4 and both types give the Fourier symbol on the full (2 pi/12) Z_12^3 lattice (in [0,1], 1 at 0, 0 at the checkerboard), constants/checkerboard in exact arithmetic, and a BFS over work-buffer histories (NaN / 1e30 poison) shows independence of prior buffer contents.",
        "design_ref": "DESIGN.md section 5 C19, sections 4.1-4.3",
        "note": "Trusted: interpreter (float/exact), finite alphabets as listed in the evidence.",
        "technique": "full product lattices over value alphabets, exact basis enumeration of filter impulse responses, BFS over buffer histories",
    },
    "C15": {
        "text": "Exhaustive within bounds on the model of every generated kernel (the captured assignment collection + iteration region, bound to the generated code by conformance replay): all permutations of 4-6 cell updates along each axis and of the 2^d block executed on real bytes must give one final state; two threads owning two cells each with every cell update split into read and write steps - all 70 interleavings x all 24 assignments per axis - must equal the sequential result; all pairs of cell updates must commute. A call-site monitor inspects every kernel call of real simulator steps over the configuration lattice (and of the interaction path) for outputs overlapping neighbour-read or differently indexed inputs. Spreading order is decided with power-of-two weights and forces 2^60, 1, -2^60 for which every accumulation order yields different bytes, under NUMBA_NUM_THREADS 1 and 4; no closure may be compiled parallel. Negative controls (loop-carried kernel, aliased call) must be reported on every run.",
        "design_ref": "DESIGN.md section 5 C15, section 4.4",
        "note": "Schedules are explored on the model at cell-update granularity; hardware memory ordering, vectorisation width and false sharing are not modelled - they cannot change results if the dependence structure checked here holds (argument, not observation). Real OpenMP runs are a supplementary thorough-tier pass only.",
        "technique": "stateless schedule exploration (all iteration orders, all read/write interleavings of two threads, pairwise commutation) on captured kernel models + call-site aliasing monitor on the real code + enumeration of numba thread counts {1,2,3,4,7} (fresh process each) for spreading order and every forcing grid's force transfer",
    },
    "C18": {
        "text": "Exhaustive within bounds: for coupled flow-body runs of K steps (NS2D + moving/rotating rigid cylinder; NS3D + sphere with filter / fast-diagonalisation variants) following the upstream loop, EVERY checkpoint index 0..K is written through the IO layer, loaded into freshly constructed simulator / body / interaction objects, scratch arrays are poisoned (none / all / each single buffer) and the run is continued; every later step is compared with the uninterrupted trajectory. The restart helper is driven over all subsets of checkpoint names, every creation order of larger name sets, and equal/different body times.",
        "design_ref": "DESIGN.md section 5 C18, section 4.5",
        "note": "Body arrays are copied by the harness (PyElastica's restart is exercised only inside the restart helper on a rigid-cylinder system). Prescribed rigid-body kinematics; tolerance 4096 eps because a fresh FFTW plan may round differently.",
        "technique": "crash/resume-point enumeration (every checkpoint index x scratch-poisoning subsets) with a differential oracle against the uninterrupted run",
    },
    "C02": {
        "category": "exploration",
        "text": "Bounded enumeration, weaker level than the other checks: the full product lattice (thorough tier; one axis value each in the quick tier) of refinement studies (Lamb-Oseen vortex in a free stream, Gaussian blob in uniform flow in 2-D and 3-D) over resolutions, centre, strength, viscosity, free-stream direction and precision against closed-form solutions; observed order >= 0.85 between successive resolutions and absolute error below bounds calibrated on the unchanged tree with a factor-2 margin. Convergence under refinement is an asymptotic statement that no bounded enumeration decides; the check is kept because its oracle is independent of any transcription of the discretisation.",
        "design_ref": "DESIGN.md section 5 C02",
        "note": "The lattice of (problem, resolution ladder, centre, strength, viscosity, direction, precision) is enumerated completely, not sampled, but the property is asymptotic: nothing is claimed beyond the finest enumerated grid, hence category exploration. Interpreter back end.",
        "technique": "exhaustive enumeration of a finite product lattice of refinement studies against analytic solutions (bounded; the asymptotic part of the claim is outside any bounded enumeration)",
    },
}
